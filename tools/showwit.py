#!/usr/bin/env python3
"""Print a witness file in readable form: signature, query, the text around the cursor."""
import json,sys
w=json.load(open(sys.argv[1]))
print("property :",w['property']); print("signature:",w['signature']); print("what     :",w['what'][:600])
print("unit     :",json.dumps(w.get('unit')))
print("query    :",w.get('query'))
for k in ('expected','observed'):
    if w.get(k): print(k,":",w[k][:1500])
u=w.get('unit') or {}
files=w.get('files') or {}
key=(u.get('path','')+'/'+u.get('file','')) if isinstance(u,dict) else ''
if key in files:
    src=files[key].encode()
    b=u.get('byte',0)
    lo=max(0,b-160); hi=min(len(src),b+100)
    print("---- text around cursor (| marks byte %d of %d) ----"%(b,len(src)))
    print(src[lo:b].decode('utf8','replace')+"⟦|⟧"+src[b:hi].decode('utf8','replace'))
if len(sys.argv)>2 and w.get('detail'): print("---- detail ----"); print(w['detail'][:3000])
