#!/bin/bash
# Silence sweep on the unchanged tree: tools/sweep.sh <tier> <seed> [<seed> ...]  (never run while /repo is patched)
tier="$1"; shift
cd /verif
bak=$(mktemp -d /root/scratch/evbak.XXXXXX); cp -a /verif/evidence/. "$bak"/
for s in "$@"; do
  for p in C01 C02 C03 C04 C05 C06 C07 C08 C09 C10 C11 C12 C13 C14 C15 C16 C17 C18 C19 C20; do
    out=$(VERIF_SEED=$s ./check $p $tier 2>&1); rc=$?
    echo "seed=$s $p rc=$rc $(echo "$out" | grep -E '^(HELD|VIOLATED|INFRA|BUILD)' | tail -1)"
    echo "$out" | grep -E "^(VIOLATION|INCONCLUSIVE|  signature)" | head -8
    if [ $rc -ne 0 ]; then mkdir -p /root/scratch/sweepwit/$s/$p; cp -a evidence/witness/$p/. /root/scratch/sweepwit/$s/$p/ 2>/dev/null; fi
  done
done
rm -rf /verif/evidence; mkdir -p /verif/evidence; cp -a "$bak"/. /verif/evidence/; rm -rf "$bak"
