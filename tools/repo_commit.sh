#!/bin/bash
# Commit a fix to /repo only if it builds and the unedited suite passes:  tools/repo_commit.sh <message-file> <file>...
set -eu
msgfile="$1"; shift
export GOFLAGS=-mod=mod GOPROXY=off GOSUMDB=off GOTOOLCHAIN=local
cd /repo
test -z "$(gofmt -l "$@")" || { echo "gofmt"; exit 1; }
go build ./...
go build -tags verif ./...
out=$(go test -vet=off -count=1 ./... 2>&1) || { echo "$out" | tail -20; exit 1; }
git checkout go.sum
git add "$@"
git commit -q -F "$msgfile"
git log --oneline | head -1
