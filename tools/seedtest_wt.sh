#!/bin/bash
# Like seedtest.sh, but without touching /repo's working tree: the seeded change is applied in a
# scratch worktree of /repo HEAD and the harness is built against that worktree (-modfile).
# Several of these can run side by side, also while checks run against /repo.
#   tools/seedtest_wt.sh <seeded-id> <tier> <Cxx> [Cyy ...]
set -u
id="$1"; tier="$2"; shift 2
export GOFLAGS=-mod=mod GOPROXY=off GOSUMDB=off GOTOOLCHAIN=local
patch="/verif/seeded/$id/patch.diff"
[ -f "$patch" ] || { echo "no $patch"; exit 2; }
wt=/tmp/wt/st-$id; out=/root/scratch/st-$id
git -C /repo worktree remove --force "$wt" 2>/dev/null; rm -rf "$out"
git -C /repo worktree add -q "$wt" HEAD || exit 2
trap 'git -C /repo worktree remove --force "$wt" 2>/dev/null; rm -rf "$out"' EXIT
git -C "$wt" apply "$patch" || { echo "patch does not apply"; exit 2; }
mkdir -p "$out"; cp /verif/known_findings.json "$out"/
H=${HARNESS:-/verif/harness}; sed "s#=> /repo#=> $wt#" $H/go.mod > "$out/go.mod"; cp $H/go.sum "$out/go.sum"
for c in "$@"; do
  race=""; [ "$c" = C05 ] && race="-race"
  (cd $H && go build -tags verif $race -modfile="$out/go.mod" -o "$out/vcheck" ./cmd/vcheck) 2>"$out/build.log" || { echo "$id $c: BUILD ERROR"; tail -5 "$out/build.log"; continue; }
  res=$(VERIF_DIR="$out" "$out/vcheck" run "$c" "$tier" 2>&1); rc=$?
  nv=$(echo "$res" | grep -c "^VIOLATION")
  case $rc in
    1) echo "$id $c $tier: DETECTED ($nv violation signatures)"; echo "$res" | grep -A1 "^VIOLATION" | grep "signature:" | head -5;;
    0) echo "$id $c $tier: MISSED"; echo "$res" | tail -1;;
    *) echo "$id $c $tier: ERROR rc=$rc"; echo "$res" | tail -5;;
  esac
  mkdir -p /verif/seeded/$id/witness; cp -a "$out/evidence/witness/." /verif/seeded/$id/witness/ 2>/dev/null
done
