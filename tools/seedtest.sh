#!/bin/bash
# Apply a seeded change to /repo, run the given checks, revert. Never commits.
#   tools/seedtest.sh <seeded-id> <tier> <Cxx> [Cyy ...]
# Prints, per check, DETECTED (exit 1 with VIOLATION) / MISSED (exit 0) / ERROR.
set -u
id="$1"; tier="$2"; shift 2
patch="/verif/seeded/$id/patch.diff"
[ -f "$patch" ] || { echo "no $patch"; exit 2; }
cd /repo
if [ -n "$(git status --porcelain --untracked-files=no | grep -v go.sum)" ]; then echo "/repo has local changes, refusing"; exit 2; fi
git checkout -q -- . 2>/dev/null
git apply "$patch" || { echo "patch does not apply"; exit 2; }
bak=$(mktemp -d /root/scratch/evbak.XXXXXX); cp -a /verif/evidence/. "$bak"/
trap 'cd /repo && git checkout -q -- . && git status --porcelain --untracked-files=no | grep -v go.sum; mkdir -p /verif/seeded/$id/witness; cp -a /verif/evidence/witness/. /verif/seeded/$id/witness/ 2>/dev/null; rm -rf /verif/evidence; mkdir -p /verif/evidence; cp -a "$bak"/. /verif/evidence/; rm -rf "$bak"' EXIT
for c in "$@"; do
  out=$(cd /verif && VERIF_DIR=/verif ./check "$c" "$tier" 2>&1); rc=$?
  nv=$(echo "$out" | grep -c "^VIOLATION")
  case $rc in
    1) echo "$id $c $tier: DETECTED ($nv violation signatures)"; echo "$out" | grep -A1 "^VIOLATION" | grep "signature:" | head -5;;
    0) echo "$id $c $tier: MISSED"; echo "$out" | tail -1;;
    *) echo "$id $c $tier: ERROR rc=$rc"; echo "$out" | tail -5;;
  esac
done
