#!/bin/bash
# Independently confirm a seeded change produced by a sub-agent:
#   tools/verify_seed.sh <dir with patch.diff + demo_test.go.txt + meta.json> <id>
# In a fresh scratch worktree of /repo: suite passes with the patch, demo fails with it, demo passes without it.
# On success the change is stored as /verif/seeded/<id>/.
set -u
src="$1"; id="$2"
export GOFLAGS=-mod=mod GOPROXY=off GOSUMDB=off GOTOOLCHAIN=local
wt=/tmp/wt/verify-$id
git -C /repo worktree remove --force "$wt" 2>/dev/null
git -C /repo worktree add -q "$wt" HEAD || exit 2
cleanup() { git -C /repo worktree remove --force "$wt" 2>/dev/null; }
trap cleanup EXIT
cd "$wt"
git apply --check "$src/patch.diff" || { echo "$id: patch does not apply"; exit 1; }
git apply "$src/patch.diff"
place=$(head -3 "$src/demo_test.go.txt" | grep -o "place at: *[^ ]*" | head -1 | sed 's/place at: *//')
[ -n "$place" ] || { echo "$id: no 'place at:' line"; exit 1; }
suite=$(go test -vet=off -count=1 ./... 2>&1 | grep -v "no test files"); echo "$suite" | grep -q "^FAIL\|^---" && { echo "$id: SUITE FAILS with patch"; echo "$suite" | tail -5; exit 1; }
cp "$src/demo_test.go.txt" "$place"
pkg="./$(dirname "$place")/"
with=$(go test -vet=off -count=1 "$pkg" 2>&1 | tail -3); echo "$with" | grep -q "^ok" && { echo "$id: demo PASSES with patch (should fail)"; exit 1; }
git checkout -q -- . 
without=$(go test -vet=off -count=1 "$pkg" 2>&1 | tail -3); echo "$without" | grep -q "^ok" || { echo "$id: demo FAILS without patch"; echo "$without"; exit 1; }
mkdir -p /verif/seeded/$id
cp "$src/patch.diff" /verif/seeded/$id/patch.diff
cp "$src/demo_test.go.txt" /verif/seeded/$id/demo_test.go.txt
python3 - "$src/meta.json" "$id" "$place" <<'PY'
import json,sys
m=json.load(open(sys.argv[1]))
m['verified_by_me']=["scratch worktree of /repo HEAD: git apply patch.diff; go test -vet=off -count=1 ./... -> all ok","demo placed at "+sys.argv[3]+": go test of its package fails with the patch","git checkout -- . (patch removed): same test passes"]
json.dump(m,open('/verif/seeded/'+sys.argv[2]+'/meta.json','w'),indent=1)
PY
echo "$id: CONFIRMED (suite ok with patch, demo fails with patch, demo passes without)"
