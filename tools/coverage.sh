#!/bin/bash
# What do the checks drive? Builds vcheck with coverage instrumentation of the library and of the
# harness' own oracles, runs the given tier of every property (C05 excepted: race build) into a scratch
# VERIF_DIR and prints per-package statement coverage plus the least covered library functions.
#   tools/coverage.sh [quick|thorough]      (developer aid, not a registered check)
set -u
tier="${1:-quick}"
export GOFLAGS=-mod=mod GOPROXY=off GOSUMDB=off GOTOOLCHAIN=local
work=$(mktemp -d /root/scratch/cov.XXXXXX); trap 'rm -rf "$work"' EXIT
mkdir -p "$work/data" "$work/vd"; cp /verif/known_findings.json "$work/vd/"
(cd /verif/harness && go build -tags verif -cover -coverpkg=verifharness/...,github.com/hashicorp/hcl-lang/... -o "$work/vcheck" ./cmd/vcheck) || exit 2
for c in C01 C02 C03 C04 C06 C07 C08 C09 C10 C11 C12 C13 C14 C15 C16 C17 C18 C19 C20; do
  GOCOVERDIR="$work/data" VERIF_DIR="$work/vd" "$work/vcheck" run $c "$tier" | tail -1 | cut -c1-140
done
cd /verif/harness
go tool covdata percent -i="$work/data" | grep "hcl-lang\|verifharness/internal/props\|verifharness/internal/model"
go tool covdata textfmt -i="$work/data" -o "$work/cov.txt"
echo "--- library functions below 60 % (marker methods excluded)"
go tool cover -func="$work/cov.txt" | grep "hashicorp/hcl-lang" | grep -v "isSchemaImpl\|isConstraintImpl\|isAddrStepImpl\|isRefStepImpl\|isSymbolImpl\|isOriginImpl\|Sigil\|_string.go\|verif_hooks\|isDefaultImpl\|isDependencyKeyImpl" | awk '{print $NF, $1, $2}' | sort -n | awk '$1+0 < 60'
