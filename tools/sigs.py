#!/usr/bin/env python3
"""List the violation signatures of the last run of a property: tools/sigs.py C03"""
import json,glob,sys
for prop in sys.argv[1:]:
    rows=[]
    for f in glob.glob(f'/verif/evidence/witness/{prop}/*.json'):
        w=json.load(open(f)); rows.append((w['signature'],f.split('/')[-1],w['what'][:160].replace('\n',' ')))
    for r in sorted(rows): print(prop, r[0],'|',r[1],'|',r[2])
