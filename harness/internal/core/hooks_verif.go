//go:build verif

package core

import (
	"github.com/hashicorp/hcl-lang/decoder"
	"github.com/hashicorp/hcl-lang/schema"
	"github.com/hashicorp/hcl/v2"
)

// HooksEnabled reports whether the library was built with the verif hooks.
const HooksEnabled = true

func setMaxCandidates(d *decoder.PathDecoder, n uint) { d.VerifSetMaxCandidates(n) }

// EffectiveBodySchema is the decoder's own effective body schema for a block.
// result: 0 failed, 1 successful, 2 partially successful, 3 no dependent keys.
func EffectiveBodySchema(block *hcl.Block, bs *schema.BlockSchema) (*schema.BodySchema, int) {
	return decoder.VerifEffectiveBodySchema(block, bs)
}
