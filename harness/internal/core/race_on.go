//go:build race

package core

// RaceEnabled reports whether the binary was built with the race detector.
const RaceEnabled = true
