//go:build !verif

package core

import (
	"github.com/hashicorp/hcl-lang/decoder"
	"github.com/hashicorp/hcl-lang/schema"
	"github.com/hashicorp/hcl/v2"
)

const HooksEnabled = false

func setMaxCandidates(d *decoder.PathDecoder, n uint) {}

func EffectiveBodySchema(block *hcl.Block, bs *schema.BlockSchema) (*schema.BodySchema, int) {
	return nil, -1
}
