// Package core holds the execution environment shared by all checks: a
// workspace (paths, schemas, files) is built into real decoder inputs, queries
// are executed against the real library under the crash guard (O1), and results
// are returned as plain values for the oracles.
package core

import (
	"context"
	"fmt"
	"runtime/debug"
	"sort"
	"strings"

	"github.com/hashicorp/hcl-lang/decoder"
	"github.com/hashicorp/hcl-lang/lang"
	"github.com/hashicorp/hcl-lang/reference"
	"github.com/hashicorp/hcl-lang/schema"
	"github.com/hashicorp/hcl-lang/validator"
	"github.com/hashicorp/hcl/v2"
	"github.com/hashicorp/hcl/v2/hclsyntax"
	"github.com/hashicorp/hcl/v2/json"

	"verifharness/internal/postab"
)

// PathSpec is the caller-side description of one path.
type PathSpec struct {
	Schema     *schema.BodySchema
	Files      map[string]string
	Functions  map[string]schema.FunctionSignature
	Validators []validator.Validator // nil => stock validators
	NoTargets  bool                  // leave ReferenceTargets nil (W8)
	NoOrigins  bool
}

// Workspace is a set of paths plus the decoder context.
type Workspace struct {
	Paths     map[string]*PathSpec
	Order     []string // order in which PathReader.Paths lists them
	Ctx       decoder.DecoderContext
	FailPaths map[string]bool // paths whose PathContext fails (W8)
	// CallOut, when set, is invoked at every call-out of the library into
	// caller code (PathReader methods, validators) - C05 injects yields here.
	CallOut func(site string)
}

func StockValidators() []validator.Validator {
	return []validator.Validator{
		validator.BlockLabelsLength{},
		validator.DeprecatedAttribute{},
		validator.DeprecatedBlock{},
		validator.MaxBlocks{},
		validator.MinBlocks{},
		validator.MissingRequiredAttribute{},
		validator.UnexpectedAttribute{},
		validator.UnexpectedBlock{},
	}
}

// Reader implements decoder.PathReader.
type Reader struct {
	ws   *Workspace
	ctxs map[string]*decoder.PathContext
}

func (r *Reader) Paths(ctx context.Context) []lang.Path {
	if r.ws.CallOut != nil {
		r.ws.CallOut("Paths")
	}
	ps := make([]lang.Path, 0, len(r.ws.Order))
	for _, p := range r.ws.Order {
		ps = append(ps, lang.Path{Path: p, LanguageID: "terraform"})
	}
	return ps
}

func (r *Reader) PathContext(p lang.Path) (*decoder.PathContext, error) {
	if r.ws.CallOut != nil {
		r.ws.CallOut("PathContext")
	}
	if r.ws.FailPaths[p.Path] {
		return nil, fmt.Errorf("path %q cannot be read", p.Path)
	}
	if c, ok := r.ctxs[p.Path]; ok {
		return c, nil
	}
	return nil, fmt.Errorf("path %q not found", p.Path)
}

// Env is a built workspace.
type Env struct {
	WS      *Workspace
	Reader  *Reader
	Dec     *decoder.Decoder
	PathCtx map[string]*decoder.PathContext
	Tables  map[string]map[string]*postab.Table
	// BuildPanics are panics of the collectors during Build (reported by C01).
	BuildPanics []*PanicInfo
	// FreshPD makes every query obtain its own PathDecoder (Decoder.Path). The
	// default is what a long-lived client does: one PathDecoder per path, reused
	// for all queries (state kept on it between calls becomes observable).
	FreshPD bool
	pds     map[string]*decoder.PathDecoder
}

func LangPath(p string) lang.Path { return lang.Path{Path: p, LanguageID: "terraform"} }

// ParseFile parses like a language server does: diagnostics are ignored, a file
// is used whenever the parser returns one.
func ParseFile(name string, src []byte) *hcl.File {
	if strings.HasSuffix(name, ".json") {
		f, _ := json.Parse(src, name)
		return f
	}
	f, _ := hclsyntax.ParseConfig(src, name, hcl.InitialPos)
	return f
}

func IsJSON(name string) bool { return strings.HasSuffix(name, ".json") }

type callOutValidator struct {
	inner validator.Validator
	ws    *Workspace
}

func (v callOutValidator) Visit(ctx context.Context, node hclsyntax.Node, nodeSchema schema.Schema) (context.Context, hcl.Diagnostics) {
	if v.ws.CallOut != nil {
		v.ws.CallOut("Validator")
	}
	return v.inner.Visit(ctx, node, nodeSchema)
}

// Build constructs the real inputs. collect: run the real collectors and
// install targets/origins (as terraform-ls does).
func (ws *Workspace) Build(collect bool) *Env {
	e := &Env{WS: ws, PathCtx: map[string]*decoder.PathContext{}, Tables: map[string]map[string]*postab.Table{}}
	e.Reader = &Reader{ws: ws, ctxs: e.PathCtx}
	if len(ws.Order) == 0 {
		for p := range ws.Paths {
			ws.Order = append(ws.Order, p)
		}
		sort.Strings(ws.Order)
	}
	for _, p := range ws.Order {
		spec := ws.Paths[p]
		pc := &decoder.PathContext{
			Schema:    spec.Schema,
			Files:     map[string]*hcl.File{},
			Functions: spec.Functions,
		}
		vs := spec.Validators
		if vs == nil {
			vs = StockValidators()
		}
		for _, v := range vs {
			pc.Validators = append(pc.Validators, callOutValidator{inner: v, ws: ws})
		}
		e.Tables[p] = map[string]*postab.Table{}
		for name, src := range spec.Files {
			b := []byte(src)
			f := ParseFile(name, b)
			if f == nil {
				continue
			}
			pc.Files[name] = f
			if IsJSON(name) {
				e.Tables[p][name] = postab.BuildPlain(name, b)
			} else {
				e.Tables[p][name] = postab.Build(name, b)
			}
		}
		e.PathCtx[p] = pc
	}
	e.Dec = decoder.NewDecoder(e.Reader)
	e.Dec.SetContext(ws.Ctx)
	if collect {
		e.Collect()
	}
	return e
}

// Collect runs the real collectors on every path and installs the results.
func (e *Env) Collect() {
	for _, p := range e.WS.Order {
		spec := e.WS.Paths[p]
		if spec.NoTargets || e.WS.FailPaths[p] {
			continue
		}
		r := e.Run(Query{Kind: QCollectTargets, Path: p})
		if r.Panic != nil {
			e.BuildPanics = append(e.BuildPanics, r.Panic)
		}
		if ts, ok := r.Value.(reference.Targets); ok {
			e.PathCtx[p].ReferenceTargets = ts
		}
	}
	for _, p := range e.WS.Order {
		spec := e.WS.Paths[p]
		if spec.NoOrigins || e.WS.FailPaths[p] {
			continue
		}
		r := e.Run(Query{Kind: QCollectOrigins, Path: p})
		if r.Panic != nil {
			e.BuildPanics = append(e.BuildPanics, r.Panic)
		}
		if os, ok := r.Value.(reference.Origins); ok {
			e.PathCtx[p].ReferenceOrigins = os
		}
	}
}

// QKind enumerates the public query entry points.
type QKind int

const (
	QCompletion QKind = iota
	QCompletionPrefill
	QHover
	QSignature
	QSemTokens
	QSymbolsInFile
	QWorkspaceSymbols
	QLinks
	QValidate
	QValidateFile
	QCollectTargets
	QCollectOrigins
	QWriteOnly
	QGotoDef  // ReferenceTargetsForOriginAtPos
	QFindRefs // ReferenceOriginsTargetingPos
	QCodeLenses
	NumQKinds
)

var qnames = [...]string{"CompletionAtPos", "CompletionAtPos+Prefill", "HoverAtPos", "SignatureAtPos", "SemanticTokensInFile",
	"SymbolsInFile", "Decoder.Symbols", "LinksInFile", "Validate", "ValidateFile", "CollectReferenceTargets",
	"CollectReferenceOrigins", "CollectWriteOnlyAttributes", "ReferenceTargetsForOriginAtPos", "ReferenceOriginsTargetingPos", "CodeLensesForFile"}

func (k QKind) String() string {
	if int(k) < len(qnames) {
		return qnames[k]
	}
	return fmt.Sprintf("QKind(%d)", int(k))
}

func QKindByName(s string) (QKind, bool) {
	for i, n := range qnames {
		if n == s {
			return QKind(i), true
		}
	}
	return 0, false
}

// Positional reports whether the query takes a cursor.
func (k QKind) Positional() bool {
	switch k {
	case QCompletion, QCompletionPrefill, QHover, QSignature, QGotoDef, QFindRefs:
		return true
	}
	return false
}

// PerFile reports whether the query takes a file name.
func (k QKind) PerFile() bool {
	switch k {
	case QSemTokens, QSymbolsInFile, QLinks, QValidateFile, QCodeLenses:
		return true
	}
	return k.Positional()
}

var PositionalKinds = []QKind{QCompletion, QCompletionPrefill, QHover, QSignature, QGotoDef, QFindRefs}
var FileKinds = []QKind{QSemTokens, QSymbolsInFile, QLinks, QValidateFile}
var PathKinds = []QKind{QValidate, QCollectTargets, QCollectOrigins, QWriteOnly}

// Query is one call of a public entry point.
type Query struct {
	Kind QKind
	Path string
	File string
	Pos  hcl.Pos
	Arg  string // workspace symbol query
	// MaxCandidates > 0 uses the verif hook to lift the candidate limit (C06).
	MaxCandidates uint
}

func (q Query) String() string {
	s := fmt.Sprintf("%s path=%q", q.Kind, q.Path)
	if q.Kind.PerFile() {
		s += fmt.Sprintf(" file=%q", q.File)
	}
	if q.Kind.Positional() {
		s += fmt.Sprintf(" pos=%d,%d(byte %d)", q.Pos.Line, q.Pos.Column, q.Pos.Byte)
	}
	if q.Kind == QWorkspaceSymbols {
		s += fmt.Sprintf(" query=%q", q.Arg)
	}
	return s
}

// PanicInfo describes a recovered panic.
type PanicInfo struct {
	Value string
	Stack string
	// Sig is the narrow signature: panic class + innermost /repo function.
	Sig   string
	Query string
}

// Result of a query.
type Result struct {
	Value   interface{}
	Err     error
	Panic   *PanicInfo
	PathErr error // error of Decoder.Path (path not readable)
}

func panicClass(v string) string {
	switch {
	case strings.Contains(v, "index out of range"):
		return "index out of range"
	case strings.Contains(v, "slice bounds out of range"):
		return "slice bounds out of range"
	case strings.Contains(v, "nil pointer dereference"):
		return "nil pointer dereference"
	case strings.Contains(v, "nil map"):
		return "assignment to nil map"
	case strings.Contains(v, "interface conversion"):
		return "interface conversion"
	}
	if i := strings.IndexAny(v, ":("); i > 0 && i < 60 {
		return v[:i]
	}
	if len(v) > 60 {
		return v[:60]
	}
	return v
}

// innermostRepoFunc extracts the innermost frame that lies in /repo.
func innermostRepoFunc(stack string) string {
	lines := strings.Split(stack, "\n")
	for i := 0; i+1 < len(lines); i++ {
		fn := lines[i]
		loc := strings.TrimSpace(lines[i+1])
		if strings.HasPrefix(fn, "\t") || !strings.HasPrefix(lines[i+1], "\t") {
			continue
		}
		if strings.HasPrefix(loc, "/repo/") || strings.Contains(loc, "/hcl-lang/") {
			// strip args
			if j := strings.LastIndex(fn, "("); j > 0 {
				fn = fn[:j]
			}
			fn = strings.TrimPrefix(fn, "github.com/hashicorp/hcl-lang/")
			return fn
		}
	}
	return "?"
}

func mkPanic(r interface{}, q Query) *PanicInfo {
	st := string(debug.Stack())
	v := fmt.Sprint(r)
	return &PanicInfo{Value: v, Stack: st, Sig: panicClass(v) + " in " + innermostRepoFunc(st), Query: q.String()}
}

// Run executes a query against the real library under the crash guard.
func (e *Env) Run(q Query) (res Result) {
	defer func() {
		if r := recover(); r != nil {
			res.Panic = mkPanic(r, q)
		}
	}()
	ctx := context.Background()
	lp := LangPath(q.Path)
	switch q.Kind {
	case QWorkspaceSymbols:
		v, err := e.Dec.Symbols(ctx, q.Arg)
		return Result{Value: v, Err: err}
	case QGotoDef:
		v, err := e.Dec.ReferenceTargetsForOriginAtPos(lp, q.File, q.Pos)
		return Result{Value: v, Err: err}
	case QFindRefs:
		v := e.Dec.ReferenceOriginsTargetingPos(lp, q.File, q.Pos)
		return Result{Value: v}
	case QCodeLenses:
		v, err := e.Dec.CodeLensesForFile(ctx, lp, q.File)
		return Result{Value: v, Err: err}
	}
	var d *decoder.PathDecoder
	if !e.FreshPD && e.pds[q.Path] != nil && !e.WS.FailPaths[q.Path] {
		d = e.pds[q.Path]
		if q.MaxCandidates == 0 {
			setMaxCandidates(d, 100) // the library's default
		}
	} else {
		var err error
		d, err = e.Dec.Path(lp)
		if err != nil {
			return Result{PathErr: err, Err: err}
		}
		if !e.FreshPD {
			if e.pds == nil {
				e.pds = map[string]*decoder.PathDecoder{}
			}
			e.pds[q.Path] = d
		}
	}
	if q.MaxCandidates > 0 {
		setMaxCandidates(d, q.MaxCandidates)
	}
	switch q.Kind {
	case QCompletion, QCompletionPrefill:
		d.PrefillRequiredFields = q.Kind == QCompletionPrefill
		v, err := d.CompletionAtPos(ctx, q.File, q.Pos)
		return Result{Value: v, Err: err}
	case QHover:
		v, err := d.HoverAtPos(ctx, q.File, q.Pos)
		return Result{Value: v, Err: err}
	case QSignature:
		v, err := d.SignatureAtPos(q.File, q.Pos)
		return Result{Value: v, Err: err}
	case QSemTokens:
		v, err := d.SemanticTokensInFile(ctx, q.File)
		return Result{Value: v, Err: err}
	case QSymbolsInFile:
		v, err := d.SymbolsInFile(q.File)
		return Result{Value: v, Err: err}
	case QLinks:
		v, err := d.LinksInFile(q.File)
		return Result{Value: v, Err: err}
	case QValidate:
		v, err := d.Validate(ctx)
		return Result{Value: v, Err: err}
	case QValidateFile:
		v, err := d.ValidateFile(ctx, q.File)
		return Result{Value: v, Err: err}
	case QCollectTargets:
		v, err := d.CollectReferenceTargets()
		return Result{Value: v, Err: err}
	case QCollectOrigins:
		v, err := d.CollectReferenceOrigins()
		return Result{Value: v, Err: err}
	case QWriteOnly:
		v, err := d.CollectWriteOnlyAttributes()
		return Result{Value: v, Err: err}
	}
	return Result{Err: fmt.Errorf("unknown query kind %d", q.Kind)}
}

// SortedFiles returns the file names of a path in sorted order.
func (e *Env) SortedFiles(path string) []string {
	var out []string
	for n := range e.PathCtx[path].Files {
		out = append(out, n)
	}
	sort.Strings(out)
	return out
}
