//go:build !race

package core

const RaceEnabled = false
