package gen

import (
	"context"
	"fmt"

	"github.com/hashicorp/hcl-lang/decoder"
	"github.com/hashicorp/hcl-lang/schema"
	"github.com/zclconf/go-cty/cty"

	"verifharness/internal/core"
)

// GenPath is the path of generated workspaces.
const GenPath = "/gen"

// Generated is a generated schema + configuration with the generator's own
// knowledge about it.
type Generated struct {
	G    *G
	Root *schema.BodySchema
	Plan *Plan
	Src  string
	WS   *core.Workspace
}

func decoderContext() decoder.DecoderContext {
	ctx := decoder.NewDecoderContext()
	ctx.CompletionHooks["GenHook"] = func(ctx context.Context, value cty.Value) ([]decoder.Candidate, error) {
		return []decoder.Candidate{
			decoder.ExpressionCompletionCandidate(decoder.ExpressionCandidate{Value: cty.StringVal("hook-one"), Detail: "from hook"}),
			decoder.ExpressionCompletionCandidate(decoder.ExpressionCandidate{Value: cty.StringVal("hook-two"), Detail: "from hook"}),
		}, nil
	}
	// a hook that has nothing to offer until something was typed (a remote lookup
	// by prefix), and one that fails
	ctx.CompletionHooks["SparseHook"] = func(ctx context.Context, value cty.Value) ([]decoder.Candidate, error) {
		if value.IsNull() || !value.IsKnown() || value.Type() != cty.String || len(value.AsString()) < 2 {
			return nil, nil
		}
		return []decoder.Candidate{decoder.ExpressionCompletionCandidate(decoder.ExpressionCandidate{Value: cty.StringVal(value.AsString() + "-found"), Detail: "from hook"})}, nil
	}
	ctx.CompletionHooks["FailingHook"] = func(ctx context.Context, value cty.Value) ([]decoder.Candidate, error) {
		return nil, fmt.Errorf("lookup failed")
	}
	return ctx
}

// Build generates schema and configuration; a pure function of (seed, opt).
func Build(seed int64, opt string) *Generated {
	g := New(seed, ParseOptions(opt))
	root := g.Root()
	plan := g.PlanConfig(root)
	src := plan.Native()
	ws := &core.Workspace{
		Paths: map[string]*core.PathSpec{GenPath: {Schema: root, Files: map[string]string{"main.tf": src}, Functions: Functions()}},
		Order: []string{GenPath},
		Ctx:   decoderContext(),
	}
	return &Generated{G: g, Root: root, Plan: plan, Src: src, WS: ws}
}

// BuildJSON is Build with the configuration rendered in JSON syntax
// (ok=false if the plan is not expressible).
func BuildJSON(seed int64, opt string) (*Generated, bool) {
	g := Build(seed, opt)
	js, ok := g.Plan.JSON()
	if !ok {
		return nil, false
	}
	g.WS.Paths[GenPath].Files = map[string]string{"main.tf.json": js}
	g.Src = js
	return g, true
}

// Make returns a fresh workspace (fresh schema objects) for (seed, opt).
func Make(seed int64, opt string) (*core.Workspace, error) {
	return Build(seed, opt).WS, nil
}
