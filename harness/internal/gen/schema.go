package gen

import (
	"fmt"

	"github.com/hashicorp/hcl-lang/lang"
	"github.com/hashicorp/hcl-lang/schema"
	"github.com/zclconf/go-cty/cty"
)

func (g *G) desc(kind string) lang.MarkupContent {
	// unique marker strings so that hover containment is unambiguous (C12)
	if g.coin(0.5) {
		return lang.Markdown(g.id("DESC_" + kind + "_"))
	}
	return lang.PlainText(g.id("DESC_" + kind + "_"))
}

// Constraint draws a constraint.
func (g *G) Constraint(depth int) schema.Constraint {
	k := g.pick(12)
	if depth <= 0 && k >= 6 {
		k = g.pick(6)
	}
	if g.O.Simple {
		switch g.pick(6) {
		case 0:
			return schema.AnyExpression{OfType: g.simpleType()}
		case 1:
			return schema.LiteralType{Type: g.simpleType()}
		case 2:
			return schema.Reference{OfScopeId: g.scope()}
		case 3:
			return schema.AnyExpression{OfType: cty.DynamicPseudoType}
		case 4:
			if depth > 0 {
				return schema.List{Elem: g.Constraint(depth - 1)}
			}
			return schema.AnyExpression{OfType: cty.String}
		default:
			if depth > 0 {
				return schema.Map{Elem: g.Constraint(depth - 1)}
			}
			return schema.LiteralType{Type: cty.Number}
		}
	}
	switch k {
	case 0:
		if g.oddSchema && g.coin(0.15) {
			return schema.AnyExpression{} // no expected type at all
		}
		return schema.AnyExpression{OfType: g.Type(2), SkipLiteralComplexTypes: g.coin(0.1)}
	case 1:
		return schema.LiteralType{Type: g.Type(2), SkipComplexTypes: g.coin(0.1)}
	case 2:
		if g.oddSchema && g.coin(0.15) {
			// a value that is no concrete value
			return schema.LiteralValue{Value: []cty.Value{cty.NullVal(cty.String), cty.UnknownVal(cty.Bool), cty.NullVal(cty.List(cty.String))}[g.pick(3)], Description: g.desc("lv")}
		}
		return schema.LiteralValue{Value: g.Value(g.Type(1)), IsDeprecated: g.coin(0.1), Description: g.desc("lv")}
	case 3:
		return schema.Keyword{Keyword: g.id("kw"), Name: []string{"", "keyword-name"}[g.pick(2)], Description: g.desc("kw")}
	case 4:
		return schema.TypeDeclaration{}
	case 5:
		switch g.pick(3) {
		case 0:
			return schema.Reference{OfScopeId: g.scope()}
		case 1:
			return schema.Reference{OfType: g.Type(1)}
		default:
			return schema.Reference{Address: &schema.ReferenceAddrSchema{ScopeId: g.scope()}, Name: "custom ref"}
		}
	case 6:
		l := schema.List{Elem: g.Constraint(depth - 1), Description: g.desc("list")}
		if g.coin(0.2) {
			l.MinItems, l.MaxItems = 1, 3
		}
		return l
	case 7:
		return schema.Set{Elem: g.Constraint(depth - 1), Description: g.desc("set")}
	case 8:
		n := 1 + g.pick(3)
		es := make([]schema.Constraint, n)
		for i := range es {
			es[i] = g.Constraint(depth - 1)
		}
		return schema.Tuple{Elems: es, Description: g.desc("tuple")}
	case 9:
		return schema.Map{Elem: g.Constraint(depth - 1), AllowInterpolatedKeys: g.coin(0.5), Name: []string{"", "custom map"}[g.pick(2)], Description: g.desc("map")}
	case 10:
		attrs := schema.ObjectAttributes{}
		for i, n := 0, 1+g.pick(3); i < n; i++ {
			a := &schema.AttributeSchema{Constraint: g.Constraint(depth - 1), Description: g.desc("oattr")}
			if g.coin(0.5) {
				a.IsRequired = true
			} else {
				a.IsOptional = true
			}
			name := g.id("oa")
			if g.coin(0.15) {
				name = "odd-" + name
			}
			attrs[name] = a
		}
		return schema.Object{Attributes: attrs, AllowInterpolatedKeys: g.coin(0.5), Name: []string{"", "custom object"}[g.pick(2)], Description: g.desc("obj")}
	default:
		n := 2 + g.pick(2)
		oo := make(schema.OneOf, n)
		for i := range oo {
			oo[i] = g.Constraint(depth - 1)
		}
		return oo
	}
}

func (g *G) simpleType() cty.Type {
	return []cty.Type{cty.String, cty.Number, cty.Bool, cty.List(cty.String), cty.Map(cty.String), cty.String}[g.pick(6)]
}

// Attr draws an attribute schema. addressable: may carry an Address.
func (g *G) Attr(depth int, addressable bool) *schema.AttributeSchema {
	a := &schema.AttributeSchema{Constraint: g.Constraint(depth), Description: g.desc("attr")}
	switch g.pick(5) {
	case 0:
		a.IsRequired = true
	case 1, 2:
		a.IsOptional = true
	case 3:
		a.IsOptional = true
		a.IsComputed = true
	default:
		a.IsComputed = true
	}
	a.IsDeprecated = g.coin(0.1)
	a.IsSensitive = g.coin(0.1)
	a.IsWriteOnly = g.coin(0.1)
	if addressable && g.coin(0.3) {
		a.Address = &schema.AttributeAddrSchema{
			Steps:      schema.Address{schema.StaticStep{Name: g.id("root")}, schema.AttrNameStep{}},
			AsExprType: g.coin(0.7), ScopeId: g.scope(), FriendlyName: g.id("fn"),
		}
		if g.coin(0.15) {
			a.Address.Steps = schema.Address{schema.AttrNameStep{}}
		}
		a.Address.AsReference = !a.Address.AsExprType || g.coin(0.3)
	}
	if g.coin(0.1) || (g.O.Mods && g.coin(0.6)) {
		a.SemanticTokenModifiers = lang.SemanticTokenModifiers{lang.SemanticTokenModifier(g.id("mod"))}
	}
	if g.O.Hooks && g.coin(0.2) {
		a.CompletionHooks = lang.CompletionHooks{{Name: []string{"GenHook", "GenHook", "SparseHook", "FailingHook"}[g.pick(4)]}}
	}
	return a
}

// Body draws a body schema.
func (g *G) Body(depth int, addressable bool) *schema.BodySchema {
	b := &schema.BodySchema{Description: g.desc("body"), Detail: g.id("det")}
	if g.coin(0.1) && !g.O.Wide {
		b.AnyAttribute = g.Attr(2, addressable)
		b.AnyAttribute.IsRequired = false
		b.AnyAttribute.IsComputed = false
		b.AnyAttribute.IsOptional = true
	} else {
		b.Attributes = map[string]*schema.AttributeSchema{}
		n := g.pick(8)
		if g.O.Wide && depth >= 1 {
			n = 90 + g.pick(41)
		}
		for i := 0; i < n; i++ {
			cd := 2
			if g.O.Wide {
				cd = 0
			}
			b.Attributes[g.id("a")] = g.Attr(cd, addressable)
		}
	}
	if depth > 0 {
		b.Blocks = map[string]*schema.BlockSchema{}
		for i, n := 0, g.pick(4); i < n; i++ {
			name := g.id("b")
			if g.coin(0.05) && len(b.Attributes) > 0 && !g.O.Simple {
				// attribute / block name clash
				name = sortedAttrNames(b.Attributes)[0]
			}
			b.Blocks[name] = g.Block(depth-1, false)
		}
	} else if g.coin(0.5) {
		b.Blocks = map[string]*schema.BlockSchema{}
	}
	if g.coin(0.3) {
		b.Extensions = &schema.BodyExtensions{Count: g.coin(0.5), ForEach: g.coin(0.5), DynamicBlocks: g.coin(0.5), SelfRefs: g.coin(0.5)}
	}
	if g.coin(0.15) {
		b.DocsLink = &schema.DocsLink{URL: "https://example.com/" + g.id("doc"), Tooltip: g.id("tip")}
		b.HoverURL = "https://example.com/" + g.id("hov")
	}
	return b
}

// depKeyAttr is the literal-typed dep key attribute added to a body.
func (g *G) depKeyAttr(kind int) *schema.AttributeSchema {
	a := &schema.AttributeSchema{IsOptional: true, IsDepKey: true, Description: g.desc("depkey")}
	switch kind {
	case 0:
		a.Constraint = schema.LiteralType{Type: cty.String}
	case 1:
		a.Constraint = schema.LiteralType{Type: cty.Number}
	case 2:
		a.Constraint = schema.LiteralType{Type: cty.Bool}
	default:
		a.Constraint = schema.Reference{OfScopeId: "provider"}
	}
	return a
}

// DepVal renders the i-th value of a dep key attribute of a kind and the
// matching ExpressionValue.
func DepVal(kind, i int) (string, schema.ExpressionValue) {
	switch kind {
	case 0:
		s := fmt.Sprintf("dv%d", i)
		return quote(s), schema.ExpressionValue{Static: cty.StringVal(s)}
	case 1:
		return itoa(10 + i), schema.ExpressionValue{Static: cty.NumberIntVal(int64(10 + i))}
	case 2:
		if i%2 == 0 {
			return "true", schema.ExpressionValue{Static: cty.True}
		}
		return "false", schema.ExpressionValue{Static: cty.False}
	default:
		return fmt.Sprintf("prov.alias%d", i), schema.ExpressionValue{Address: lang.Address{lang.RootStep{Name: "prov"}, lang.AttrStep{Name: fmt.Sprintf("alias%d", i)}}}
	}
}

// DepInfo records how the dependent bodies of a generated block are keyed, so
// that the configuration generator can pick values that select them.
type DepInfo struct {
	LabelIdx  []int    // indexes of dep-key labels
	AttrNames []string // dep key attributes of the static body
	AttrKinds []int
	// Keys lists, per dependent body, the chosen value index for each label
	// / attribute (-1: attribute not part of this key).
	Keys []DepKey
}

type DepKey struct {
	Key       schema.SchemaKey
	LabelVals []string
	AttrVals  []int // index into DepVal, -1 = absent
	// second level: name/kind/value of a dep-key attribute of the first level body
	L2Name string
	L2Kind int
	L2Val  int
	Parent int // index of first-level key, -1 if this is first level
}

// addMarkers adds the marker attributes of a dependent body: they are visible
// to a feature iff that feature sees this dependent body (C16).
func (g *G) addMarkers(body *schema.BodySchema) {
	g.n++
	body.Attributes[fmt.Sprintf("dep_%d_marker", g.n)] = &schema.AttributeSchema{IsRequired: true, Constraint: schema.LiteralType{Type: cty.String}, Description: g.desc("depmarker")}
	body.Attributes[fmt.Sprintf("dep_%d_ref", g.n)] = &schema.AttributeSchema{IsRequired: true, Constraint: schema.Reference{OfScopeId: g.scope()}, Description: g.desc("depref")}
}

// Block draws a block schema.
func (g *G) Block(depth int, top bool) *schema.BlockSchema {
	bs := &schema.BlockSchema{Description: g.desc("block"), Type: schema.BlockType(g.pick(5)), IsDeprecated: g.coin(0.08)}
	nl := g.pick(3)
	if g.O.Mods && g.coin(0.5) {
		nl = 2
	}
	if nl == 2 && g.coin(0.25) {
		nl = 3 // a third label: dependency-key and plain labels in every order
	}
	if top && g.coin(0.6) && nl == 0 {
		nl = 1 + g.pick(2)
	}
	if bs.Type == schema.BlockTypeMap && nl == 0 {
		nl = 1
	}
	for i := 0; i < nl; i++ {
		bs.Labels = append(bs.Labels, &schema.LabelSchema{Name: g.id("l"), Description: g.desc("label")})
		if g.coin(0.2) || (g.O.Mods && g.coin(0.85)) {
			bs.Labels[i].SemanticTokenModifiers = lang.SemanticTokenModifiers{lang.SemanticTokenModifier(g.id("lmod"))}
		}
	}
	if g.coin(0.93) || g.O.Simple {
		bs.Body = g.Body(depth, top)
	}
	if g.coin(0.25) {
		bs.MinItems = uint64(g.pick(4))
		bs.MaxItems = uint64(g.pick(3))
		if bs.MaxItems > 0 && bs.MaxItems < bs.MinItems {
			bs.MaxItems = bs.MinItems
		}
	}
	if g.coin(0.2) || (g.O.Mods && g.coin(0.85)) {
		bs.SemanticTokenModifiers = lang.SemanticTokenModifiers{lang.SemanticTokenModifier(g.id("bmod"))}
		if g.O.Mods && g.coin(0.5) {
			bs.SemanticTokenModifiers = append(bs.SemanticTokenModifiers, lang.SemanticTokenModifier(g.id("bmod")))
		}
	}
	pDep := 0.45
	if g.O.DepHeavy {
		pDep = 0.9
	}
	if g.coin(pDep) {
		g.addDependent(bs, depth)
	}
	if (top && g.coin(0.7)) || g.coin(0.15) {
		g.addAddress(bs)
	}
	return bs
}

// BlockDeps remembers the DepInfo of generated blocks.
var _ = fmt.Sprint

func (g *G) addDependent(bs *schema.BlockSchema, depth int) {
	info := &DepInfo{}
	for i := range bs.Labels {
		if g.coin(0.6) {
			bs.Labels[i].IsDepKey = true
			bs.Labels[i].Completable = g.coin(0.7)
			info.LabelIdx = append(info.LabelIdx, i)
		}
	}
	if bs.Body != nil && bs.Body.AnyAttribute == nil && (len(info.LabelIdx) == 0 || g.coin(0.4)) {
		for i, n := 0, 1+g.pick(2); i < n; i++ {
			kind := g.pick(4)
			// (in JSON a reference key is written "${prov.aliasN}")
			name := g.id("key")
			a := g.depKeyAttr(kind)
			if kind == 0 && g.coin(0.35) {
				a.DefaultValue = schema.DefaultValue{Value: cty.StringVal("dv0")}
			}
			bs.Body.Attributes[name] = a
			info.AttrNames = append(info.AttrNames, name)
			info.AttrKinds = append(info.AttrKinds, kind)
		}
	}
	if len(info.LabelIdx)+len(info.AttrNames) == 0 {
		return
	}
	bs.DependentBody = map[schema.SchemaKey]*schema.BodySchema{}
	for i, n := 0, 1+g.pick(3); i < n; i++ {
		dk := schema.DependencyKeys{}
		k := DepKey{Parent: -1, L2Val: -1}
		for _, li := range info.LabelIdx {
			v := DepLabelValue(g.pick(3))
			dk.Labels = append(dk.Labels, schema.LabelDependent{Index: li, Value: v})
			k.LabelVals = append(k.LabelVals, v)
		}
		for ai, an := range info.AttrNames {
			if len(dk.Labels) > 0 && g.coin(0.4) {
				k.AttrVals = append(k.AttrVals, -1)
				continue
			}
			vi := g.pick(3)
			_, ev := DepVal(info.AttrKinds[ai], vi)
			dk.Attributes = append(dk.Attributes, schema.AttributeDependent{Name: an, Expr: ev})
			k.AttrVals = append(k.AttrVals, vi)
		}
		if len(dk.Labels)+len(dk.Attributes) == 0 {
			continue
		}
		// keys are built in shuffled order on purpose (C16: canonical)
		if g.coin(0.5) {
			for a, b := 0, len(dk.Attributes)-1; a < b; a, b = a+1, b-1 {
				dk.Attributes[a], dk.Attributes[b] = dk.Attributes[b], dk.Attributes[a]
			}
			for a, b := 0, len(dk.Labels)-1; a < b; a, b = a+1, b-1 {
				dk.Labels[a], dk.Labels[b] = dk.Labels[b], dk.Labels[a]
			}
		}
		k.Key = schema.NewSchemaKey(dk)
		if _, dup := bs.DependentBody[k.Key]; dup {
			continue
		}
		body := g.Body(depth, false)
		body.AnyAttribute = nil
		// dependent bodies often come without detail / description of their own
		// (the label's are shown instead)
		if g.coin(0.35) {
			body.Detail = ""
		}
		if g.coin(0.25) {
			body.Description = lang.MarkupContent{}
		}
		// nested blocks of dependent bodies often carry their own extensions (the
		// decoder propagates DynamicBlocks into copies of them)
		for _, bn := range sortedBlockNames(body.Blocks) {
			nb := body.Blocks[bn]
			if nb.Body != nil && nb.Body.Extensions == nil && g.coin(0.5) {
				nb.Body.Extensions = &schema.BodyExtensions{Count: g.coin(0.5), SelfRefs: g.coin(0.5)}
			}
		}
		if body.Attributes == nil {
			body.Attributes = map[string]*schema.AttributeSchema{}
		}
		// marker attribute: visible iff this dependent body is in force (C16)
		g.addMarkers(body)
		bs.DependentBody[k.Key] = body
		info.Keys = append(info.Keys, k)
		// second level keyed by an attribute of the first level body
		// (the second-level key is made of the labels and the key attributes of
		// the first-level body, so only label-keyed first levels get one)
		if len(dk.Attributes) == 0 && g.coin(0.45) {
			kind := g.pick(3)
			name := g.id("key2_")
			body.Attributes[name] = g.depKeyAttr(kind)
			// a second-level key attribute left out of the block contributes its default value
			l2Default := kind == 0 && g.coin(0.4)
			if l2Default {
				body.Attributes[name].DefaultValue = schema.DefaultValue{Value: cty.StringVal("dv0")}
			}
			for j, m := 0, 1+g.pick(2); j < m; j++ {
				dk2 := schema.DependencyKeys{Labels: append([]schema.LabelDependent{}, dk.Labels...), Attributes: append([]schema.AttributeDependent{}, dk.Attributes...)}
				_, ev := DepVal(kind, j)
				dk2.Attributes = append(dk2.Attributes, schema.AttributeDependent{Name: name, Expr: ev})
				k2 := DepKey{Key: schema.NewSchemaKey(dk2), LabelVals: k.LabelVals, AttrVals: k.AttrVals, L2Name: name, L2Kind: kind, L2Val: j, Parent: len(info.Keys) - 1}
				if _, dup := bs.DependentBody[k2.Key]; dup {
					continue
				}
				b2 := g.Body(0, false)
				b2.AnyAttribute = nil
				if b2.Attributes == nil {
					b2.Attributes = map[string]*schema.AttributeSchema{}
				}
				b2.Attributes[name] = g.depKeyAttr(kind)
				if l2Default {
					b2.Attributes[name].DefaultValue = schema.DefaultValue{Value: cty.StringVal("dv0")}
				}
				g.addMarkers(b2)
				bs.DependentBody[k2.Key] = b2
				info.Keys = append(info.Keys, k2)
			}
		}
	}
	if len(bs.DependentBody) == 0 {
		bs.DependentBody = nil
		return
	}
	if g.deps == nil {
		g.deps = map[*schema.BlockSchema]*DepInfo{}
	}
	g.deps[bs] = info
}

func (g *G) addAddress(bs *schema.BlockSchema) {
	ad := &schema.BlockAddrSchema{ScopeId: g.scope(), FriendlyName: g.id("bfn")}
	if g.coin(0.8) || len(bs.Labels) == 0 {
		ad.Steps = append(ad.Steps, schema.StaticStep{Name: g.id("r")})
	}
	for i := range bs.Labels {
		if g.coin(0.85) {
			ad.Steps = append(ad.Steps, schema.LabelStep{Index: uint(i)})
		}
	}
	if len(ad.Steps) == 0 {
		// an address starts with a static name or a label (an optional attribute value
		// alone would make the whole address optional)
		ad.Steps = append(ad.Steps, schema.StaticStep{Name: g.id("r")})
	}
	if bs.Body != nil && bs.Body.AnyAttribute == nil && g.coin(0.2) {
		name := g.id("alias")
		bs.Body.Attributes[name] = &schema.AttributeSchema{IsOptional: true, Constraint: schema.LiteralType{Type: cty.String}, Description: g.desc("alias")}
		ad.Steps = append(ad.Steps, schema.AttrValueStep{Name: name, IsOptional: g.coin(0.7)})
	}
	if len(ad.Steps) == 0 {
		ad.Steps = append(ad.Steps, schema.StaticStep{Name: g.id("r")})
	}
	ad.AsReference = g.coin(0.5)
	ad.BodyAsData = g.coin(0.5)
	ad.InferBody = ad.BodyAsData && g.coin(0.7)
	ad.BodySelfRef = ad.InferBody && g.coin(0.4)
	ad.DependentBodyAsData = g.coin(0.5)
	ad.InferDependentBody = ad.DependentBodyAsData && g.coin(0.7)
	ad.DependentBodySelfRef = ad.InferDependentBody && g.coin(0.4)
	ad.SupportUnknownNestedRefs = g.coin(0.2)
	if bs.Body != nil && bs.Body.AnyAttribute == nil && g.coin(0.2) && !g.O.Simple {
		name := g.id("type")
		bs.Body.Attributes[name] = &schema.AttributeSchema{IsOptional: true, Constraint: schema.TypeDeclaration{}, Description: g.desc("typedecl")}
		ad.AsTypeOf = &schema.BlockAsTypeOf{AttributeExpr: name}
		if !g.O.NoOddities && g.coin(0.3) {
			// the block is typed by an attribute its body schema does not declare
			// (passes schema validation; the configuration still writes the attribute)
			delete(bs.Body.Attributes, name)
		}
	}
	if !ad.AsReference && !ad.BodyAsData && !ad.DependentBodyAsData && ad.AsTypeOf == nil && !ad.SupportUnknownNestedRefs {
		ad.AsReference = true
	}
	bs.Address = ad
}

// Root draws a root body schema and validates it; invalid draws are counted
// and redrawn.
func (g *G) Root() *schema.BodySchema {
	for {
		// one schema in eight tries constraints that carry no concrete type / value
		// (whether such a schema is valid is for Validate() to say)
		g.oddSchema = !g.O.NoOddities && !g.O.Simple && g.coin(0.12)
		b := &schema.BodySchema{Description: g.desc("root"), Attributes: map[string]*schema.AttributeSchema{}, Blocks: map[string]*schema.BlockSchema{}}
		for i, n := 0, g.pick(3); i < n; i++ {
			b.Attributes[g.id("top")] = g.Attr(2, true)
		}
		nb := 3 + g.pick(4)
		if g.O.Wide {
			nb = 2
		}
		for i := 0; i < nb; i++ {
			b.Blocks[g.id("blk")] = g.Block(2, true)
		}
		if !g.O.NoOddities && !g.O.Simple && g.coin(0.1) {
			// the root body itself is targetable
			b.TargetableAs = schema.Targetables{{Address: lang.Address{lang.RootStep{Name: g.id("rootself")}}, ScopeId: g.scope(), AsType: cty.String, Description: g.desc("rootself")}}
		}
		if err := b.Validate(); err != nil {
			g.Rejected++
			g.deps = nil
			continue
		}
		return b
	}
}

// DepLabelValue is the i-th value a dependency-key label takes. One of them
// holds characters that JSON escapes and Go quoting does not.
func DepLabelValue(i int) string {
	if i == 2 {
		return "l&<2>"
	}
	return fmt.Sprintf("lv%d", i)
}
