package gen

import (
	"fmt"
	"sort"
	"strings"

	"github.com/hashicorp/hcl-lang/lang"
	"github.com/hashicorp/hcl-lang/schema"
	"github.com/hashicorp/hcl/v2/hclsyntax"
	"github.com/zclconf/go-cty/cty"
)

// E is an expression tree. Kinds: lit, ref, tmpl, list, obj, raw.
// "raw" holds native text for forms JSON can only express inside "${...}".
type E struct {
	K    string
	V    cty.Value // lit
	S    string    // ref address / raw text
	Kids []*E      // list elements, obj values, tmpl parts
	Keys []string  // obj keys (rendered as written: ident, "quoted", (expr))
	// Legacy: in JSON the reference is written as a bare string (no "${...}"),
	// which the decoder accepts where the constraint is a Reference.
	Legacy bool
}

func lit(v cty.Value) *E { return &E{K: "lit", V: v} }
func ref(a string) *E    { return &E{K: "ref", S: a} }
func raw(s string) *E    { return &E{K: "raw", S: s} }
func list(es ...*E) *E   { return &E{K: "list", Kids: es} }

// Native renders the expression in native syntax.
func (e *E) Native(indent string) string {
	switch e.K {
	case "lit":
		return Lit(e.V)
	case "ref", "raw":
		return e.S
	case "tmpl":
		var sb strings.Builder
		sb.WriteByte('"')
		for _, p := range e.Kids {
			if p.K == "lit" && p.V.Type() == cty.String {
				q := quote(p.V.AsString())
				sb.WriteString(q[1 : len(q)-1])
			} else {
				sb.WriteString("${" + p.Native(indent) + "}")
			}
		}
		sb.WriteByte('"')
		return sb.String()
	case "list":
		if len(e.Kids) == 0 {
			return "[]"
		}
		ps := make([]string, len(e.Kids))
		for i, k := range e.Kids {
			ps[i] = k.Native(indent)
		}
		return "[" + strings.Join(ps, ", ") + "]"
	case "obj":
		if len(e.Kids) == 0 {
			return "{}"
		}
		var sb strings.Builder
		sb.WriteString("{\n")
		for i, k := range e.Kids {
			sb.WriteString(indent + "  " + e.Keys[i] + " = " + k.Native(indent+"  ") + "\n")
		}
		sb.WriteString(indent + "}")
		return sb.String()
	}
	return "null"
}

// HasRaw reports whether the tree holds forms outside the JSON subset.
func (e *E) HasRaw() bool {
	if e.K == "raw" {
		return true
	}
	for _, k := range e.Kids {
		if k.HasRaw() {
			return true
		}
	}
	return false
}

// Item is one item of a body plan.
type Item struct {
	Attr    *AttrPlan
	Block   *BlockPlan
	Comment string
}

type AttrPlan struct {
	Name   string
	Schema *schema.AttributeSchema // nil: unknown to the schema
	Expr   *E
	Fixed  bool // expression decided in pass 1 (dep keys, alias, type decl)
}

type BlockPlan struct {
	Type    string
	Labels  []string
	Schema  *schema.BlockSchema // nil: unknown
	Body    *BodyPlan
	Dynamic bool   // written as dynamic "Type" { for_each content {} }
	DepKey  int    // index into DepInfo.Keys of the selected dependent body, -1 none
	Addr    string // resolved address ("" if not addressable)
}

type BodyPlan struct {
	Schema *schema.BodySchema // generator-side effective schema (nil: unknown)
	Items  []*Item
	Locals []Decl
	// Injected lists the violations the generator put in on purpose.
	Injected []string
}

// Plan is a whole configuration.
type Plan struct {
	Root *BodyPlan
}

// effective merges static and dependent body the way the property describes.
func effective(static, dep *schema.BodySchema) *schema.BodySchema {
	m := &schema.BodySchema{Attributes: map[string]*schema.AttributeSchema{}, Blocks: map[string]*schema.BlockSchema{}}
	if static != nil {
		for k, v := range static.Attributes {
			m.Attributes[k] = v
		}
		for k, v := range static.Blocks {
			m.Blocks[k] = v
		}
		m.AnyAttribute = static.AnyAttribute
		m.Extensions = static.Extensions
	}
	if dep != nil {
		for k, v := range dep.Attributes {
			m.Attributes[k] = v
		}
		for k, v := range dep.Blocks {
			m.Blocks[k] = v
		}
		if dep.Extensions != nil {
			ext := *dep.Extensions
			// dynamic blocks are enabled for the merged body by either side
			if static != nil && static.Extensions != nil && static.Extensions.DynamicBlocks {
				ext.DynamicBlocks = true
			}
			m.Extensions = &ext
		}
	}
	return m
}

func sortedAttrNames(m map[string]*schema.AttributeSchema) []string {
	out := make([]string, 0, len(m))
	for k := range m {
		out = append(out, k)
	}
	sort.Strings(out)
	return out
}

func sortedBlockNames(m map[string]*schema.BlockSchema) []string {
	out := make([]string, 0, len(m))
	for k := range m {
		out = append(out, k)
	}
	sort.Strings(out)
	return out
}

func constraintType(c schema.Constraint) cty.Type {
	if ta, ok := c.(schema.TypeAwareConstraint); ok {
		if t, ok := ta.ConstraintType(); ok {
			return t
		}
	}
	return cty.NilType
}

// PlanConfig builds a configuration plan for a root schema.
func (g *G) PlanConfig(root *schema.BodySchema) *Plan {
	p := &Plan{}
	p.Root = g.planBody(root, 3, "")
	g.fillBody(p.Root, nil)
	return p
}

func (g *G) planBody(b *schema.BodySchema, depth int, parentAddr string) *BodyPlan {
	bp := &BodyPlan{Schema: b}
	tight := g.items > g.maxItems() // size budget reached: only what is required
	if b == nil {
		// unknown body: a few arbitrary items
		bp.Items = append(bp.Items, &Item{Attr: &AttrPlan{Name: g.id("u"), Expr: lit(cty.NumberIntVal(1)), Fixed: true}})
		return bp
	}
	ext := b.Extensions
	if ext != nil && ext.Count && g.coin(0.5) {
		bp.Items = append(bp.Items, &Item{Attr: &AttrPlan{Name: "count", Schema: &schema.AttributeSchema{Constraint: schema.AnyExpression{OfType: cty.Number}}}})
		bp.Locals = append(bp.Locals, Decl{Addr: "count.index", Type: cty.Number, Local: true})
	} else if ext != nil && ext.ForEach && g.coin(0.5) {
		bp.Items = append(bp.Items, &Item{Attr: &AttrPlan{Name: "for_each", Schema: &schema.AttributeSchema{Constraint: schema.AnyExpression{OfType: cty.Map(cty.String)}}}})
		bp.Locals = append(bp.Locals, Decl{Addr: "each.key", Type: cty.String, Local: true}, Decl{Addr: "each.value", Type: cty.DynamicPseudoType, Local: true})
	}
	if ext != nil && ext.Count != ext.ForEach && !g.O.NoOddities && !g.O.Simple && g.coin(0.3) {
		// the meta-argument of the extension that is NOT enabled here: an unexpected attribute
		other := "count"
		if ext.Count {
			other = "for_each"
		}
		if _, declared := b.Attributes[other]; !declared && b.AnyAttribute == nil {
			bp.Items = append(bp.Items, &Item{Attr: &AttrPlan{Name: other, Expr: lit(cty.NumberIntVal(2)), Fixed: true}})
		}
	}
	for _, n := range sortedAttrNames(b.Attributes) {
		a := b.Attributes[n]
		if _, isBlock := b.Blocks[n]; isBlock && g.coin(0.5) {
			continue
		}
		if a.IsComputed && !a.IsOptional {
			continue
		}
		if !a.IsRequired && (tight || g.coin(0.45)) {
			continue
		}
		g.items++
		if g.O.Wide && !a.IsRequired && g.coin(0.85) {
			continue
		}
		bp.Items = append(bp.Items, &Item{Attr: &AttrPlan{Name: n, Schema: a}})
		g.declareAttr(n, a)
	}
	if b.AnyAttribute != nil && len(b.Attributes) == 0 {
		for i, n := 0, 1+g.pick(3); i < n; i++ {
			name := g.id("anyattr")
			bp.Items = append(bp.Items, &Item{Attr: &AttrPlan{Name: name, Schema: b.AnyAttribute}})
			g.declareAttr(name, b.AnyAttribute)
		}
	}
	if !g.O.NoOddities && g.coin(0.08) {
		bp.Items = append(bp.Items, &Item{Attr: &AttrPlan{Name: "unknown_attr", Expr: lit(cty.NumberIntVal(1)), Fixed: true}})
		bp.Injected = append(bp.Injected, "unexpected-attr:unknown_attr")
	}
	if depth > 0 {
		for _, bt := range sortedBlockNames(b.Blocks) {
			if _, isAttr := b.Attributes[bt]; isAttr {
				continue // the attribute wins a name clash
			}
			bs := b.Blocks[bt]
			n := g.pick(3)
			if tight {
				n = 0
			} else if g.items > g.maxItems()/2 {
				n = g.pick(2)
			}
			g.items += n
			short, over := false, false
			if bs.MinItems > 0 && uint64(n) < bs.MinItems {
				if !g.O.NoOddities && g.coin(0.4) {
					// fewer static blocks than the minimum: with a dynamic block of the type
					// the minimum is satisfied, without one it is a violation
					n = g.pick(int(bs.MinItems))
					short = true
					bp.Injected = append(bp.Injected, "maybe-too-few-blocks:"+bt)
				} else {
					n = int(bs.MinItems)
				}
			}
			if bs.MaxItems > 0 && uint64(n) > bs.MaxItems {
				n = int(bs.MaxItems)
				if !g.O.NoOddities && g.coin(0.15) {
					n++
					over = true
					bp.Injected = append(bp.Injected, "too-many-blocks:"+bt)
				}
			}
			for i := 0; i < n; i++ {
				bp.Items = append(bp.Items, &Item{Block: g.planBlock(bt, bs, depth-1)})
			}
			if ext != nil && ext.DynamicBlocks && bs.Body != nil && !(g.O.Simple && b.AnyAttribute != nil) && ((!tight && g.coin(0.25)) || (short && g.coin(0.6)) || (over && g.coin(0.6))) {
				blk := g.planBlock(bt, bs, depth-1)
				blk.Dynamic = true
				if g.O.Simple {
					// the content of a dynamic block has the static body of its type
					// (labels are not available to select a dependent body)
					blk.Body = g.planBody(bs.Body, depth-2, "")
					blk.DepKey = -1
				}
				bp.Items = append(bp.Items, &Item{Block: blk})
			}
		}
		if !g.O.NoOddities && g.coin(0.08) {
			bp.Items = append(bp.Items, &Item{Block: &BlockPlan{Type: "unknown_block", Labels: []string{"x"}, Body: g.planBody(nil, 0, ""), DepKey: -1}})
			bp.Injected = append(bp.Injected, "unexpected-block:unknown_block")
		}
	}
	if g.coin(0.2) && !g.O.Simple {
		c := "# a comment"
		if g.O.Unicode {
			c = "# комментарий — ✓ { = ( \" ${"
		}
		pos := g.pick(len(bp.Items) + 1)
		bp.Items = append(bp.Items[:pos], append([]*Item{{Comment: c}}, bp.Items[pos:]...)...)
	}
	// shuffle item order a little (source order is arbitrary in HCL)
	if g.coin(0.3) {
		g.R.Shuffle(len(bp.Items), func(i, j int) { bp.Items[i], bp.Items[j] = bp.Items[j], bp.Items[i] })
	}
	return bp
}

func (g *G) declareAttr(name string, a *schema.AttributeSchema) {
	if a.Address == nil {
		return
	}
	var parts []string
	for _, s := range a.Address.Steps {
		switch st := s.(type) {
		case schema.StaticStep:
			parts = append(parts, st.Name)
		case schema.AttrNameStep:
			parts = append(parts, name)
		}
	}
	if len(parts) == 0 {
		return
	}
	d := Decl{Addr: strings.Join(parts, "."), Scope: a.Address.ScopeId}
	if a.Address.AsExprType {
		d.Type = constraintType(a.Constraint)
	}
	g.Decls = append(g.Decls, d)
}

func (g *G) planBlock(bt string, bs *schema.BlockSchema, depth int) *BlockPlan {
	blk := &BlockPlan{Type: bt, Schema: bs, DepKey: -1}
	info := g.deps[bs]
	// choose a dependent body (or none / unknown value)
	var key *DepKey
	if info != nil && len(info.Keys) > 0 && g.coin(0.8) {
		blk.DepKey = g.pick(len(info.Keys))
		key = &info.Keys[blk.DepKey]
	}
	nl := len(bs.Labels)
	if !g.O.NoOddities && nl > 0 && g.coin(0.05) {
		nl--
	} else if !g.O.NoOddities && g.coin(0.04) {
		nl++
	}
	for i := 0; i < nl; i++ {
		v := g.id("lbl")
		if g.O.Unicode && g.coin(0.3) {
			v = g.str() + itoa(g.n)
		}
		if i < len(bs.Labels) && bs.Labels[i].IsDepKey {
			v = DepLabelValue(g.pick(4))
			if key != nil && info != nil {
				for j, li := range info.LabelIdx {
					if li == i && j < len(key.LabelVals) {
						v = key.LabelVals[j]
					}
				}
			}
		}
		blk.Labels = append(blk.Labels, v)
	}
	// effective body by the generator's own reasoning
	var dep *schema.BodySchema
	if key != nil {
		dep = bs.DependentBody[key.Key]
		if key.Parent >= 0 && g.coin(0.15) {
			// select only the first level (second level attribute left out)
			blk.DepKey = key.Parent
			key = &info.Keys[key.Parent]
			dep = bs.DependentBody[key.Key]
		}
	}
	if bs.Body == nil && dep == nil {
		blk.Body = g.planBody(nil, 0, "")
	} else {
		eff := effective(bs.Body, dep)
		blk.Body = g.planBody(eff, depth, "")
	}
	// pin dep key attributes to the values selecting the body
	if info != nil {
		for ai, an := range info.AttrNames {
			want := -1
			if key != nil && ai < len(key.AttrVals) {
				want = key.AttrVals[ai]
			}
			g.pinAttr(blk.Body, an, info.AttrKinds[ai], want, bs.Body.Attributes[an])
		}
		if key != nil && key.L2Name != "" {
			as := dep.Attributes[key.L2Name]
			if _, hasDefault := as.DefaultValue.(schema.DefaultValue); hasDefault && key.L2Val == 0 && g.coin(0.6) {
				// selected through the default value: the attribute is left out
				blk.Body.remove(key.L2Name)
			} else {
				g.pinAttr(blk.Body, key.L2Name, key.L2Kind, key.L2Val, as)
			}
		} else if dep != nil {
			// only the first level is selected: its own key attributes must not
			// accidentally select a second-level body
			for _, an := range sortedAttrNames(dep.Attributes) {
				if dep.Attributes[an].IsDepKey {
					blk.Body.remove(an)
					if _, hasDefault := dep.Attributes[an].DefaultValue.(schema.DefaultValue); hasDefault {
						// left out, its default would select a second-level body: write a value no key uses
						g.pinAttr(blk.Body, an, 0, 5+g.pick(3), dep.Attributes[an])
					}
				}
			}
		}
	}
	// address + declarations
	if bs.Address != nil {
		var parts []string
		ok := true
		for _, s := range bs.Address.Steps {
			switch st := s.(type) {
			case schema.StaticStep:
				parts = append(parts, st.Name)
			case schema.LabelStep:
				if int(st.Index) < len(blk.Labels) {
					parts = append(parts, blk.Labels[st.Index])
				} else {
					ok = false
				}
			case schema.AttrValueStep:
				val := ""
				if g.coin(0.7) || !st.IsOptional {
					val = g.id("al")
				}
				// remove any planned occurrence, then pin
				blk.Body.remove(st.Name)
				if val != "" && !g.O.NoOddities && !g.O.Simple && g.coin(0.3) {
					// written, but not as a string literal: the block has no address at all
					// (an optional step is only skipped when the attribute is absent)
					odd := []*E{lit(cty.NumberIntVal(2)), raw("var.unknown"), lit(cty.True), raw(`true ? null : "x"`)}[g.pick(4)]
					blk.Body.Items = append(blk.Body.Items, &Item{Attr: &AttrPlan{Name: st.Name, Schema: bs.Body.Attributes[st.Name], Expr: odd, Fixed: true}})
					ok = false
					val = ""
				}
				if val != "" {
					blk.Body.Items = append(blk.Body.Items, &Item{Attr: &AttrPlan{Name: st.Name, Schema: bs.Body.Attributes[st.Name], Expr: lit(cty.StringVal(val)), Fixed: true}})
					parts = append(parts, val)
				}
			}
		}
		if ok && len(parts) > 0 && validIdents(parts) {
			blk.Addr = strings.Join(parts, ".")
			d := Decl{Addr: blk.Addr, Scope: bs.Address.ScopeId}
			g.Decls = append(g.Decls, d)
			eff := blk.Body.Schema
			if eff != nil && (bs.Address.InferBody || bs.Address.InferDependentBody) && bs.Type != schema.BlockTypeList && bs.Type != schema.BlockTypeSet && bs.Type != schema.BlockTypeMap {
				for _, an := range sortedAttrNames(eff.Attributes) {
					g.Decls = append(g.Decls, Decl{Addr: blk.Addr + "." + an, Scope: bs.Address.ScopeId, Type: constraintType(eff.Attributes[an].Constraint)})
				}
			}
			if bs.Address.BodySelfRef || bs.Address.DependentBodySelfRef {
				if eff != nil {
					for _, an := range sortedAttrNames(eff.Attributes) {
						blk.Body.Locals = append(blk.Body.Locals, Decl{Addr: "self." + an, Local: true})
					}
				}
			}
		}
		if bs.Address.AsTypeOf != nil && bs.Body != nil {
			blk.Body.remove(bs.Address.AsTypeOf.AttributeExpr)
			if g.coin(0.8) {
				blk.Body.Items = append(blk.Body.Items, &Item{Attr: &AttrPlan{Name: bs.Address.AsTypeOf.AttributeExpr, Schema: bs.Body.Attributes[bs.Address.AsTypeOf.AttributeExpr], Expr: raw(g.typeDecl()), Fixed: true}})
			}
		}
	}
	return blk
}

func validIdents(parts []string) bool {
	for _, p := range parts {
		if !hclsyntax.ValidIdentifier(p) {
			return false
		}
	}
	return true
}

func (bp *BodyPlan) remove(name string) {
	out := bp.Items[:0]
	for _, it := range bp.Items {
		if it.Attr != nil && it.Attr.Name == name {
			continue
		}
		out = append(out, it)
	}
	bp.Items = out
}

func (bp *BodyPlan) find(name string) *AttrPlan {
	for _, it := range bp.Items {
		if it.Attr != nil && it.Attr.Name == name {
			return it.Attr
		}
	}
	return nil
}

func (g *G) pinAttr(bp *BodyPlan, name string, kind, want int, as *schema.AttributeSchema) {
	bp.remove(name)
	if want < 0 {
		if g.coin(0.8) || g.O.NoOddities {
			return // absent (default value may apply)
		}
		want = 5 + g.pick(3) // a value no key uses
	}
	txt, ev := DepVal(kind, want)
	e := ref(txt)
	if kind <= 2 {
		e = lit(ev.Static)
	}
	bp.Items = append([]*Item{{Attr: &AttrPlan{Name: name, Schema: as, Expr: e, Fixed: true}}}, bp.Items...)
}

var typeDecls = []string{"string", "number", "bool", "any", "list(string)", "map(number)", "set(any)",
	"object({ a = string, b = optional(number) })", "tuple([string, bool])", "map(object({ x = list(string) }))", "object({})",
	// half-typed forms as bracket auto-closing leaves them
	"tuple()", "list()", "object()", "map()", "set()", "tuple([])", "list(tuple())", "object({ a = tuple() })", "optional()", "object({ a = optional() })", "map(list())"}

func (g *G) typeDecl() string {
	if g.O.NoOddities || g.O.Simple {
		return typeDecls[g.pick(11)] // complete forms only
	}
	return typeDecls[g.pick(len(typeDecls))]
}

// ---------------------------------------------------------------- pass 2

func (g *G) fillBody(bp *BodyPlan, locals []Decl) {
	locals = append(append([]Decl{}, locals...), bp.Locals...)
	for _, it := range bp.Items {
		switch {
		case it.Attr != nil:
			if it.Attr.Expr == nil {
				if it.Attr.Schema == nil || it.Attr.Schema.Constraint == nil {
					it.Attr.Expr = lit(cty.NumberIntVal(1))
				} else if it.Attr.Name == "count" || it.Attr.Name == "for_each" {
					// count.index / each.* are not available in their own defining expression
					var outer []Decl
					for _, l := range locals {
						if !strings.HasPrefix(l.Addr, "count.") && !strings.HasPrefix(l.Addr, "each.") {
							outer = append(outer, l)
						}
					}
					it.Attr.Expr = g.Expr(it.Attr.Schema.Constraint, 3, outer)
				} else if containsAddressableRef(it.Attr.Schema.Constraint, 0) {
					// written traversals become declarations themselves: no block-local names
					it.Attr.Expr = g.Expr(it.Attr.Schema.Constraint, 3, nil)
				} else {
					it.Attr.Expr = g.Expr(it.Attr.Schema.Constraint, 3, locals)
				}
			}
		case it.Block != nil:
			g.fillBody(it.Block.Body, locals)
		}
	}
}

func (g *G) refTo(locals []Decl, scope lang.ScopeId, t cty.Type) string {
	pool := g.Decls
	if len(locals) > 0 && g.coin(0.25) {
		return locals[g.pick(len(locals))].Addr
	}
	if len(pool) > 0 && g.coin(0.8) {
		// prefer a declaration of the wanted scope
		var fit []Decl
		for _, d := range pool {
			if scope != "" && d.Scope == scope {
				fit = append(fit, d)
			}
		}
		if len(fit) > 0 && g.coin(0.7) {
			return fit[g.pick(len(fit))].Addr
		}
		return pool[g.pick(len(pool))].Addr
	}
	return []string{"var.unknown", "local.x.y", "data.a.b", "nowhere"}[g.pick(4)]
}

// anyExpr generates a well-typed expression of (a type convertible to) t.
func (g *G) anyExpr(t cty.Type, depth int, locals []Decl) *E {
	if g.O.Simple {
		switch g.pick(4) {
		case 0:
			return ref(g.refTo(nil, "", t))
		case 1:
			if t == cty.String || t == cty.DynamicPseudoType {
				return &E{K: "tmpl", Kids: []*E{lit(cty.StringVal("pre-")), ref(g.refTo(nil, "", t)), lit(cty.StringVal("-post"))}}
			}
		}
		return g.collectionOrLit(t, depth, locals)
	}
	if depth <= 0 || g.coin(0.3) {
		if g.coin(0.5) {
			return ref(g.refTo(locals, "", t))
		}
		return g.collectionOrLit(t, depth, locals)
	}
	n := func(t cty.Type) string { return g.anyExpr(t, depth-1, locals).Native("  ") }
	isStr := t == cty.String || t == cty.DynamicPseudoType
	isNum := t == cty.Number || t == cty.DynamicPseudoType
	isBool := t == cty.Bool || t == cty.DynamicPseudoType
	for tries := 0; tries < 6; tries++ {
		switch g.pick(14) {
		case 0:
			if isStr {
				return &E{K: "tmpl", Kids: []*E{lit(cty.StringVal("pre-")), g.anyExpr(cty.String, depth-1, locals), lit(cty.StringVal("-post"))}}
			}
		case 1:
			if isStr {
				if !g.O.Simple && g.coin(0.25) {
					// a namespaced function; blanks around "::" are legal
					name := []string{"ns::fn", "ns:: fn", "ns ::fn", "ns :: fn"}[g.pick(4)]
					return raw(name + "(" + n(cty.String) + ")")
				}
				return raw("upper(" + n(cty.String) + ")")
			}
		case 2:
			if isStr {
				return raw("join(\",\", " + n(cty.List(cty.String)) + ", " + n(cty.List(cty.String)) + ")")
			}
		case 3:
			return raw(n(cty.Bool) + " ? " + n(t) + " : " + n(t))
		case 4:
			return raw("(" + n(t) + ")")
		case 5:
			if isNum {
				return raw(n(cty.Number) + []string{" + ", " - ", " * ", " % "}[g.pick(4)] + n(cty.Number))
			}
		case 6:
			if isBool {
				switch g.pick(3) {
				case 0:
					return raw("!" + n(cty.Bool))
				case 1:
					return raw(n(cty.Number) + " > " + n(cty.Number))
				default:
					return raw(n(cty.Bool) + " && " + n(cty.Bool))
				}
			}
		case 7:
			if t.IsListType() || t.IsTupleType() || t == cty.DynamicPseudoType {
				return raw("[for x in " + g.refTo(locals, "", cty.NilType) + " : x]")
			}
		case 8:
			if t.IsMapType() || t.IsObjectType() || t == cty.DynamicPseudoType {
				return raw("{for k, v in " + g.refTo(locals, "", cty.NilType) + " : k => v if v != \"\"}")
			}
		case 9:
			return raw(g.refTo(locals, "", cty.NilType) + "[" + n(cty.String) + "]")
		case 10:
			return raw("any(" + n(t) + ", " + n(cty.String) + ")")
		case 11:
			if t.IsListType() || t == cty.DynamicPseudoType {
				return raw(g.refTo(locals, "", cty.NilType) + "[*].id")
			}
		case 12:
			if isNum {
				return raw("length(" + n(cty.List(cty.String)) + ")")
			}
		case 13:
			if isStr {
				if g.coin(0.5) {
					return raw("f2(" + n(cty.String) + ", " + n(cty.Number) + ")")
				}
				if depth >= 3 {
					return raw("<<EOT\nline ${" + n(cty.String) + "}\nEOT")
				}
			}
		}
	}
	return g.collectionOrLit(t, depth, locals)
}

func (g *G) collectionOrLit(t cty.Type, depth int, locals []Decl) *E {
	if depth > 0 {
		switch {
		case t.IsListType() || t.IsSetType():
			return list(g.anyExpr(t.ElementType(), depth-1, locals), g.anyExpr(t.ElementType(), depth-1, locals))
		case t.IsTupleType():
			var es []*E
			for _, et := range t.TupleElementTypes() {
				es = append(es, g.anyExpr(et, depth-1, locals))
			}
			return list(es...)
		case t.IsMapType():
			o := &E{K: "obj"}
			o.Keys = []string{"k1", `"k 2"`}
			o.Kids = []*E{g.anyExpr(t.ElementType(), depth-1, locals), g.anyExpr(t.ElementType(), depth-1, locals)}
			if !g.O.Simple && g.coin(0.2) {
				o.Keys = append(o.Keys, "("+g.refTo(locals, "", cty.String)+")")
				o.Kids = append(o.Kids, g.anyExpr(t.ElementType(), depth-1, locals))
			}
			if !g.O.Simple && !g.O.NoOddities && g.coin(0.15) {
				// literal keys in unusual spellings: parenthesised, a conditional that
				// yields a (typed) null, a quoted key with an escape
				k := []string{`("pk")`, `(true ? null : "nk")`, `(false ? "fk" : null)`, `"e\"k"`, `true`, `null`}[g.pick(6)]
				o.Keys = append(o.Keys, k)
				o.Kids = append(o.Kids, g.anyExpr(t.ElementType(), depth-1, locals))
			}
			return o
		case t.IsObjectType():
			o := &E{K: "obj"}
			names := []string{}
			for n := range t.AttributeTypes() {
				names = append(names, n)
			}
			sort.Strings(names)
			for _, n := range names {
				if t.AttributeOptional(n) && g.coin(0.4) {
					continue
				}
				o.Keys = append(o.Keys, n)
				o.Kids = append(o.Kids, g.anyExpr(t.AttributeType(n), depth-1, locals))
			}
			return o
		}
	}
	return lit(g.Value(t))
}

// Expr generates an expression conforming to a constraint.
func (g *G) Expr(c schema.Constraint, depth int, locals []Decl) *E {
	// collection constraints are not always written as literals: a for
	// expression, a reference or a call is just as legal there
	if !g.O.Simple && (g.coin(0.06) || (g.O.Shapes && g.coin(0.3))) {
		switch c.(type) {
		case schema.List, schema.Set, schema.Tuple:
			switch g.pick(3) {
			case 0:
				return raw("[for x in " + g.refTo(locals, "", cty.NilType) + " : x]")
			case 1:
				return ref(g.refTo(locals, "", cty.NilType))
			default:
				return raw("tolist(" + g.refTo(locals, "", cty.NilType) + ")")
			}
		case schema.Map, schema.Object:
			switch g.pick(3) {
			case 0:
				return raw("{ for k, v in " + g.refTo(locals, "", cty.NilType) + " : k => v }")
			case 1:
				return ref(g.refTo(locals, "", cty.NilType))
			default:
				return raw("tomap(" + g.refTo(locals, "", cty.NilType) + ")")
			}
		}
	}
	switch c := c.(type) {
	case schema.AnyExpression:
		return g.anyExpr(c.OfType, depth, locals)
	case schema.LiteralType:
		return lit(g.Value(c.Type))
	case schema.LiteralValue:
		return lit(c.Value)
	case schema.Keyword:
		return raw(c.Keyword)
	case schema.TypeDeclaration:
		return raw(g.typeDecl())
	case schema.Reference:
		sc := c.OfScopeId
		if c.Address != nil {
			sc = c.Address.ScopeId
		}
		if c.Address != nil {
			// the written traversal becomes a declaration itself: no block-local names
			return ref(g.refTo(nil, sc, c.OfType))
		}
		r := ref(g.refTo(locals, sc, c.OfType))
		r.Legacy = g.O.Simple && g.coin(0.5)
		return r
	case schema.List:
		if c.Elem == nil {
			return list()
		}
		n := 1 + g.pick(3)
		es := make([]*E, n)
		for i := range es {
			es[i] = g.Expr(c.Elem, depth-1, locals)
		}
		return list(es...)
	case schema.Set:
		if c.Elem == nil {
			return list()
		}
		return list(g.Expr(c.Elem, depth-1, locals))
	case schema.Tuple:
		var es []*E
		for _, e := range c.Elems {
			es = append(es, g.Expr(e, depth-1, locals))
		}
		return list(es...)
	case schema.Map:
		o := &E{K: "obj"}
		if c.Elem == nil {
			return o
		}
		o.Keys = []string{"k1", `"k 2"`}
		o.Kids = []*E{g.Expr(c.Elem, depth-1, locals), g.Expr(c.Elem, depth-1, locals)}
		return o
	case schema.Object:
		o := &E{K: "obj"}
		names := []string{}
		for n := range c.Attributes {
			names = append(names, n)
		}
		sort.Strings(names)
		for _, n := range names {
			a := c.Attributes[n]
			if !a.IsRequired && g.coin(0.3) {
				continue
			}
			key := n
			if strings.Contains(n, "-") || (!g.O.Simple && g.coin(0.3)) {
				key = quote(n)
			}
			o.Keys = append(o.Keys, key)
			if a.Constraint == nil {
				o.Kids = append(o.Kids, lit(cty.NumberIntVal(1)))
			} else {
				o.Kids = append(o.Kids, g.Expr(a.Constraint, depth-1, locals))
			}
		}
		// an item whose key is computed (the schema cannot tell which attribute it is)
		if c.AllowInterpolatedKeys && !g.O.Simple && len(o.Keys) > 0 && g.coin(0.35) {
			if g.coin(0.5) {
				o.Keys = append(o.Keys, "("+g.refTo(locals, "", cty.String)+")")
			} else {
				o.Keys = append(o.Keys, "\"${"+g.refTo(locals, "", cty.String)+"}-x\"")
			}
			o.Kids = append(o.Kids, lit(cty.NumberIntVal(42)))
		}
		// an item the object schema does not know, its key written with an escape
		if !g.O.Simple && !g.O.NoOddities && g.coin(0.1) {
			o.Keys = append(o.Keys, `"e\"k"`)
			o.Kids = append(o.Kids, lit(cty.StringVal("q")))
		}
		return o
	case schema.OneOf:
		if len(c) == 0 {
			return raw("null")
		}
		return g.Expr(c[g.pick(len(c))], depth, locals)
	}
	return raw("null")
}

// ---------------------------------------------------------------- rendering

// Native renders the plan in native syntax.
func (p *Plan) Native() string {
	var sb strings.Builder
	renderBody(&sb, p.Root, "")
	return sb.String()
}

func renderBody(sb *strings.Builder, bp *BodyPlan, indent string) {
	for _, it := range bp.Items {
		switch {
		case it.Comment != "":
			sb.WriteString(indent + it.Comment + "\n")
		case it.Attr != nil:
			sb.WriteString(indent + it.Attr.Name + " = " + it.Attr.Expr.Native(indent) + "\n")
		case it.Block != nil:
			b := it.Block
			if b.Dynamic {
				fmt.Fprintf(sb, "%sdynamic %s {\n%s  for_each = [1, 2]\n", indent, quote(b.Type), indent)
				if len(b.Labels) > 0 {
					ls := make([]string, len(b.Labels))
					for i, l := range b.Labels {
						ls[i] = quote(l)
					}
					fmt.Fprintf(sb, "%s  labels   = [%s]\n", indent, strings.Join(ls, ", "))
				}
				fmt.Fprintf(sb, "%s  content {\n", indent)
				renderBody(sb, b.Body, indent+"    ")
				fmt.Fprintf(sb, "%s  }\n%s}\n", indent, indent)
				continue
			}
			sb.WriteString(indent + b.Type)
			for _, l := range b.Labels {
				sb.WriteString(" " + quote(l))
			}
			sb.WriteString(" {\n")
			renderBody(sb, b.Body, indent+"  ")
			sb.WriteString(indent + "}\n")
		}
	}
}

func containsAddressableRef(c schema.Constraint, depth int) bool {
	if depth > 6 {
		return false
	}
	switch t := c.(type) {
	case schema.Reference:
		return t.Address != nil
	case schema.List:
		return t.Elem != nil && containsAddressableRef(t.Elem, depth+1)
	case schema.Set:
		return t.Elem != nil && containsAddressableRef(t.Elem, depth+1)
	case schema.Map:
		return t.Elem != nil && containsAddressableRef(t.Elem, depth+1)
	case schema.Tuple:
		for _, e := range t.Elems {
			if containsAddressableRef(e, depth+1) {
				return true
			}
		}
	case schema.OneOf:
		for _, e := range t {
			if containsAddressableRef(e, depth+1) {
				return true
			}
		}
	case schema.Object:
		for _, a := range t.Attributes {
			if a.Constraint != nil && containsAddressableRef(a.Constraint, depth+1) {
				return true
			}
		}
	}
	return false
}
