package gen

import (
	"encoding/json"
	"sort"
	"strings"

	"github.com/zclconf/go-cty/cty"
)

// ---- JSON rendering of a plan (the subset both syntaxes can express)

type orderedObj struct {
	keys []string
	vals map[string]interface{}
}

func newObj() *orderedObj { return &orderedObj{vals: map[string]interface{}{}} }

func (o *orderedObj) set(k string, v interface{}) {
	if _, ok := o.vals[k]; !ok {
		o.keys = append(o.keys, k)
	}
	o.vals[k] = v
}

func (o *orderedObj) MarshalJSON() ([]byte, error) {
	var sb strings.Builder
	sb.WriteByte('{')
	for i, k := range o.keys {
		if i > 0 {
			sb.WriteByte(',')
		}
		kb, _ := json.Marshal(k)
		vb, err := json.Marshal(o.vals[k])
		if err != nil {
			return nil, err
		}
		sb.Write(kb)
		sb.WriteByte(':')
		sb.Write(vb)
	}
	sb.WriteByte('}')
	return []byte(sb.String()), nil
}

// tmplEscape escapes template introducers of a literal string for a JSON
// string, which HCL parses as a template.
func tmplEscape(s string) string {
	s = strings.ReplaceAll(s, "${", "$${")
	return strings.ReplaceAll(s, "%{", "%%{")
}

func litJSON(v cty.Value) interface{} {
	t := v.Type()
	switch {
	case v.IsNull() || !v.IsKnown():
		return nil
	case t == cty.String:
		return tmplEscape(v.AsString())
	case t == cty.Number:
		f, _ := v.AsBigFloat().Float64()
		if f == float64(int64(f)) {
			return int64(f)
		}
		return f
	case t == cty.Bool:
		return v.True()
	case t.IsListType() || t.IsSetType() || t.IsTupleType():
		out := []interface{}{}
		for _, e := range v.AsValueSlice() {
			out = append(out, litJSON(e))
		}
		return out
	case t.IsMapType() || t.IsObjectType():
		m := v.AsValueMap()
		ks := []string{}
		for k := range m {
			ks = append(ks, k)
		}
		sort.Strings(ks)
		o := newObj()
		for _, k := range ks {
			o.set(k, litJSON(m[k]))
		}
		return o
	}
	return nil
}

// JSON renders an expression; ok=false when it cannot be expressed.
func (e *E) JSON() (interface{}, bool) {
	switch e.K {
	case "lit":
		return litJSON(e.V), true
	case "ref":
		if e.Legacy {
			return e.S, true
		}
		return "${" + e.S + "}", true
	case "raw":
		return "${" + e.S + "}", true
	case "tmpl":
		var sb strings.Builder
		for _, p := range e.Kids {
			if p.K == "lit" && p.V.Type() == cty.String {
				sb.WriteString(tmplEscape(p.V.AsString()))
			} else {
				sb.WriteString("${" + p.Native("") + "}")
			}
		}
		return sb.String(), true
	case "list":
		out := []interface{}{}
		for _, k := range e.Kids {
			v, ok := k.JSON()
			if !ok {
				return nil, false
			}
			out = append(out, v)
		}
		return out, true
	case "obj":
		o := newObj()
		for i, k := range e.Kids {
			key := e.Keys[i]
			if strings.HasPrefix(key, "(") {
				return nil, false
			}
			key = strings.Trim(key, `"`)
			v, ok := k.JSON()
			if !ok {
				return nil, false
			}
			o.set(key, v)
		}
		return o, true
	}
	return nil, false
}

func bodyJSON(bp *BodyPlan) (*orderedObj, bool) {
	o := newObj()
	blocks := map[string][]interface{}{}
	var blockOrder []string
	for _, it := range bp.Items {
		switch {
		case it.Attr != nil:
			v, ok := it.Attr.Expr.JSON()
			if !ok {
				return nil, false
			}
			if _, dup := o.vals[it.Attr.Name]; dup {
				return nil, false
			}
			o.set(it.Attr.Name, v)
		case it.Block != nil:
			b := it.Block
			inner, ok := bodyJSON(b.Body)
			if !ok {
				return nil, false
			}
			if b.Dynamic {
				// "dynamic": {"<type>": [{"for_each": [1, 2], "labels": [...], "content": {...}}]}
				d := newObj()
				d.set("for_each", []interface{}{1, 2})
				if len(b.Labels) > 0 {
					ls := []interface{}{}
					for _, l := range b.Labels {
						ls = append(ls, l)
					}
					d.set("labels", ls)
				}
				d.set("content", inner)
				w := newObj()
				w.set(b.Type, d)
				if _, seen := blocks["dynamic"]; !seen {
					blockOrder = append(blockOrder, "dynamic")
				}
				blocks["dynamic"] = append(blocks["dynamic"], w)
				continue
			}
			var cur interface{} = inner
			for i := len(b.Labels) - 1; i >= 0; i-- {
				w := newObj()
				w.set(b.Labels[i], cur)
				cur = w
			}
			if _, seen := blocks[b.Type]; !seen {
				blockOrder = append(blockOrder, b.Type)
			}
			blocks[b.Type] = append(blocks[b.Type], cur)
		}
	}
	for _, bt := range blockOrder {
		if _, clash := o.vals[bt]; clash {
			return nil, false
		}
		o.set(bt, blocks[bt])
	}
	return o, true
}

// JSON renders the plan in HCL's JSON syntax; ok=false when the plan uses
// something only native syntax can express.
func (p *Plan) JSON() (string, bool) {
	o, ok := bodyJSON(p.Root)
	if !ok {
		return "", false
	}
	b, err := json.MarshalIndent(o, "", "  ")
	if err != nil {
		return "", false
	}
	return string(b) + "\n", true
}
