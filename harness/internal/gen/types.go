// Package gen holds the seeded workload generators: W2 (schemas that pass
// schema validation, over every constraint kind / block type / address form /
// extension) and W3 (configurations conforming to such a schema, rendered to
// native syntax and, for the expressible subset, to JSON).
package gen

import (
	"fmt"
	"math/rand"
	"sort"
	"strconv"
	"strings"

	"github.com/hashicorp/hcl-lang/lang"
	"github.com/hashicorp/hcl-lang/schema"
	"github.com/zclconf/go-cty/cty"
	"github.com/zclconf/go-cty/cty/function"
)

// Options steer the generator.
type Options struct {
	Wide       bool // bodies with 90..130 attributes (candidate limit)
	RefHeavy   bool // many references / declarations
	DepHeavy   bool // most blocks have dependent bodies
	Simple     bool // JSON-expressible subset (C19)
	Unicode    bool // multi-byte identifiers / strings / comments
	NoOddities bool // no unknown attrs/blocks, no missing labels (conforming only)
	Hooks      bool
	Mods       bool // semantic token modifiers on (almost) every block, label and attribute
	Shapes     bool // collection constraints are often written as for-expressions / references / calls
}

func ParseOptions(s string) Options {
	var o Options
	for _, f := range strings.Split(s, ",") {
		switch strings.TrimSpace(f) {
		case "wide":
			o.Wide = true
		case "refs":
			o.RefHeavy = true
		case "deps":
			o.DepHeavy = true
		case "simple":
			o.Simple = true
			o.NoOddities = true
		case "unicode":
			o.Unicode = true
		case "clean":
			o.NoOddities = true
		case "hooks":
			o.Hooks = true
		case "mods":
			o.Mods = true
		case "shapes":
			o.Shapes = true
		}
	}
	return o
}

// G is the generator state.
type G struct {
	R *rand.Rand
	O Options
	n int
	// Decls are the declarations the generator itself creates; references are
	// drawn from them so that the generator knows what resolves.
	Decls []Decl
	// Rejected counts schema draws that failed validation.
	oddSchema bool
	Rejected  int
	deps      map[*schema.BlockSchema]*DepInfo
	items     int
}

func (g *G) maxItems() int {
	if g.O.Wide {
		return 60
	}
	return 45
}

// DepInfoOf returns how the dependent bodies of a generated block are keyed.
func (g *G) DepInfoOf(bs *schema.BlockSchema) *DepInfo { return g.deps[bs] }

// Decl is a declared, addressable thing.
type Decl struct {
	Addr  string
	Scope lang.ScopeId
	Type  cty.Type // cty.NilType for type-less
	Local bool     // count.index / each.* / self.*
}

func New(seed int64, o Options) *G {
	return &G{R: rand.New(rand.NewSource(seed)), O: o}
}

func (g *G) id(p string) string {
	g.n++
	if g.O.Unicode {
		switch g.R.Intn(10) {
		case 0, 1:
			return fmt.Sprintf("%sü%d", p, g.n)
		case 2:
			return fmt.Sprintf("é%s%d", p, g.n) // the identifier STARTS with a non-ASCII letter
		}
	}
	return fmt.Sprintf("%s%d", p, g.n)
}
func (g *G) coin(p float64) bool { return g.R.Float64() < p }
func (g *G) pick(n int) int {
	if n <= 0 {
		return 0
	}
	return g.R.Intn(n)
}

var Scopes = []lang.ScopeId{"variable", "resource", "local", "provider", "data"}

func (g *G) scope() lang.ScopeId { return Scopes[g.pick(len(Scopes))] }

// Type draws a cty type.
func (g *G) Type(depth int) cty.Type {
	k := g.pick(9)
	if depth <= 0 && k > 3 {
		k = g.pick(4)
	}
	switch k {
	case 0:
		return cty.String
	case 1:
		return cty.Number
	case 2:
		return cty.Bool
	case 3:
		if g.coin(0.5) {
			return cty.String
		}
		return cty.DynamicPseudoType
	case 4:
		return cty.List(g.Type(depth - 1))
	case 5:
		return cty.Set(g.Type(0))
	case 6:
		return cty.Map(g.Type(depth - 1))
	case 7:
		n := 1 + g.pick(3)
		ts := make([]cty.Type, n)
		for i := range ts {
			ts[i] = g.Type(depth - 1)
		}
		return cty.Tuple(ts)
	default:
		m := map[string]cty.Type{}
		opt := []string{}
		for i, n := 0, 1+g.pick(3); i < n; i++ {
			name := fmt.Sprintf("f%d", i)
			m[name] = g.Type(depth - 1)
			if g.coin(0.3) {
				opt = append(opt, name)
			}
		}
		if len(opt) > 0 {
			return cty.ObjectWithOptionalAttrs(m, opt)
		}
		return cty.Object(m)
	}
}

var strPool = []string{"foo", "bar", "a b", "x-y", "q"}
var strPoolUni = []string{"foo", "ünï", "日本", "é́", "👩‍👧"}

func (g *G) str() string {
	if g.O.Unicode {
		return strPoolUni[g.pick(len(strPoolUni))]
	}
	return strPool[g.pick(len(strPool))]
}

// Value draws a known value of a type.
func (g *G) Value(t cty.Type) cty.Value {
	switch {
	case t == cty.String:
		return cty.StringVal(g.str())
	case t == cty.Number:
		return []cty.Value{cty.NumberIntVal(0), cty.NumberIntVal(42), cty.NumberFloatVal(1.5), cty.NumberIntVal(7)}[g.pick(4)]
	case t == cty.Bool:
		return cty.BoolVal(g.coin(0.5))
	case t == cty.DynamicPseudoType:
		return cty.StringVal("dyn")
	case t.IsListType():
		return cty.ListVal([]cty.Value{g.Value(t.ElementType()), g.Value(t.ElementType())})
	case t.IsSetType():
		return cty.SetVal([]cty.Value{g.Value(t.ElementType())})
	case t.IsMapType():
		return cty.MapVal(map[string]cty.Value{"k1": g.Value(t.ElementType()), "k2": g.Value(t.ElementType())})
	case t.IsTupleType():
		vs := []cty.Value{}
		for _, et := range t.TupleElementTypes() {
			vs = append(vs, g.Value(et))
		}
		return cty.TupleVal(vs)
	case t.IsObjectType():
		m := map[string]cty.Value{}
		names := make([]string, 0)
		for n := range t.AttributeTypes() {
			names = append(names, n)
		}
		sort.Strings(names) // the PRNG must be consumed in a deterministic order
		for _, n := range names {
			m[n] = g.Value(t.AttributeType(n))
		}
		return cty.ObjectVal(m)
	}
	return cty.StringVal("x")
}

// Lit renders a value as an HCL literal.
func Lit(v cty.Value) string {
	t := v.Type()
	switch {
	case v.IsNull() || !v.IsKnown(): // an unknown value (LiteralValue of an odd schema) cannot be written
		return "null"
	case t == cty.String:
		return quote(v.AsString())
	case t == cty.Number:
		return v.AsBigFloat().Text('g', -1)
	case t == cty.Bool:
		if v.True() {
			return "true"
		}
		return "false"
	case t.IsListType() || t.IsSetType() || t.IsTupleType():
		ps := []string{}
		for _, e := range v.AsValueSlice() {
			ps = append(ps, Lit(e))
		}
		return "[" + strings.Join(ps, ", ") + "]"
	case t.IsMapType() || t.IsObjectType():
		m := v.AsValueMap()
		ks := []string{}
		for k := range m {
			ks = append(ks, k)
		}
		sort.Strings(ks)
		ps := []string{}
		for _, k := range ks {
			ps = append(ps, fmt.Sprintf("%s = %s", k, Lit(m[k])))
		}
		if len(ps) == 0 {
			return "{}"
		}
		return "{ " + strings.Join(ps, ", ") + " }"
	}
	return `"?"`
}

// quote renders an HCL quoted string (escaping quotes, backslashes and
// template introducers).
func quote(s string) string {
	var sb strings.Builder
	sb.WriteByte('"')
	for i := 0; i < len(s); i++ {
		c := s[i]
		switch {
		case c == '"' || c == '\\':
			sb.WriteByte('\\')
			sb.WriteByte(c)
		case c == '\n':
			sb.WriteString("\\n")
		case (c == '$' || c == '%') && i+1 < len(s) && s[i+1] == '{':
			sb.WriteByte(c)
			sb.WriteByte(c)
		default:
			sb.WriteByte(c)
		}
	}
	sb.WriteByte('"')
	return sb.String()
}

// Functions is the generated function table: 0..3 fixed params ± variadic.
// The fixed parameters of f2, f3 and join are slices of ONE backing array (a common
// parameter prefix declared once), so join's Params has spare capacity behind its length
// and f2 / f3 own the slots there: a query that appends to the Params of a signature it
// was handed writes into what the caller supplied (C04), races with other queries (C05)
// and changes the signatures of f2 / f3 (C03, C20). Every call builds a fresh array.
func Functions() map[string]schema.FunctionSignature {
	abc := []function.Parameter{{Name: "a", Type: cty.String}, {Name: "b", Type: cty.Number}, {Name: "c", Type: cty.Bool}}
	return map[string]schema.FunctionSignature{
		"f0":     {Description: "f0 takes nothing", ReturnType: cty.String},
		"upper":  {Description: "upper", ReturnType: cty.String, Params: []function.Parameter{{Name: "s", Type: cty.String}}},
		"length": {Description: "length", ReturnType: cty.Number, Params: []function.Parameter{{Name: "v", Type: cty.DynamicPseudoType}}},
		"f2":     {Description: "f2", ReturnType: cty.String, Params: abc[:2]},
		"f3":     {Description: "f3", ReturnType: cty.Bool, Params: abc[:3]},
		"join":   {Description: "join", ReturnType: cty.String, Params: abc[:1], VarParam: &function.Parameter{Name: "lists", Type: cty.List(cty.String)}},
		"v0":     {Description: "v0 only variadic", ReturnType: cty.Number, VarParam: &function.Parameter{Name: "nums", Type: cty.Number}},
		"any":    {Description: "any returns dynamic", ReturnType: cty.DynamicPseudoType, VarParam: &function.Parameter{Name: "vals", Type: cty.DynamicPseudoType}},
		"tolist": {Description: "tolist", ReturnType: cty.List(cty.DynamicPseudoType), Params: []function.Parameter{{Name: "v", Type: cty.DynamicPseudoType}}},
		"tomap":  {Description: "tomap", ReturnType: cty.Map(cty.DynamicPseudoType), Params: []function.Parameter{{Name: "v", Type: cty.DynamicPseudoType}}},
		"ns::fn": {Description: "namespaced", ReturnType: cty.String, Params: []function.Parameter{{Name: "a", Type: cty.String}}},
	}
}

func itoa(i int) string { return strconv.Itoa(i) }
