// Package postab is the position table / range validator (O2) of DESIGN.md.
//
// For a file it derives the (line, column) of every byte offset that is a
// legitimate position, using HCL's own lexer as the reference: between tokens
// only ASCII blanks occur and each advances one column; inside a token one
// column per grapheme cluster; "\n" / "\r\n" start a new line. This is the very
// rule hclsyntax uses to assign positions to tokens, so a disagreement between
// the table and a range the library emits is the library's arithmetic.
package postab

import (
	"fmt"
	"reflect"
	"strings"

	"github.com/apparentlymart/go-textseg/v15/textseg"
	"github.com/hashicorp/hcl/v2"
	"github.com/hashicorp/hcl/v2/hclsyntax"
)

type Table struct {
	Filename string
	Len      int
	pos      []hcl.Pos // indexed by byte offset; Line==0 => not a boundary
	// SelfCheck holds a description if the table disagreed with the lexer's own
	// token positions (would mean the table rule is wrong -> harness defect).
	SelfCheck string
	// fragile marks lines holding multi-byte characters that are not part of
	// any valid token (TokenInvalid / TokenBadUTF8): the lexer assigns columns
	// per such token, grapheme clusters spanning them have no agreed column, so
	// only the byte rules are checked on these lines.
	fragile map[int]bool
}

// Build builds the table for native syntax files.
func Build(filename string, src []byte) *Table {
	t := &Table{Filename: filename, Len: len(src), pos: make([]hcl.Pos, len(src)+1), fragile: map[int]bool{}}
	toks, _ := hclsyntax.LexConfig(src, filename, hcl.InitialPos)
	for _, tok := range toks {
		if tok.Type == hclsyntax.TokenInvalid || tok.Type == hclsyntax.TokenBadUTF8 {
			for _, b := range tok.Bytes {
				if b >= 0x80 {
					t.fragile[tok.Range.Start.Line] = true
				}
			}
		}
	}
	cur := hcl.InitialPos
	t.pos[0] = cur
	for _, tok := range toks {
		sb, eb := tok.Range.Start.Byte, tok.Range.End.Byte
		if sb < cur.Byte || eb > len(src) || eb < sb {
			t.SelfCheck = fmt.Sprintf("token %s has odd range %v (cur=%d)", tok.Type, tok.Range, cur.Byte)
			break
		}
		for cur.Byte < sb { // gap: one column per byte
			cur.Byte++
			cur.Column++
			t.pos[cur.Byte] = cur
		}
		if cur != tok.Range.Start && t.SelfCheck == "" {
			t.SelfCheck = fmt.Sprintf("token %s start %v, table says %v", tok.Type, tok.Range.Start, cur)
		}
		b := src[sb:eb]
		for len(b) > 0 {
			adv, seq, _ := textseg.ScanGraphemeClusters(b, true)
			if adv == 0 {
				break
			}
			if (len(seq) == 1 && seq[0] == '\n') || (len(seq) == 2 && seq[0] == '\r' && seq[1] == '\n') {
				cur.Line++
				cur.Column = 1
			} else {
				cur.Column++
			}
			cur.Byte += adv
			t.pos[cur.Byte] = cur
			b = b[adv:]
		}
		if cur != tok.Range.End && t.SelfCheck == "" {
			t.SelfCheck = fmt.Sprintf("token %s end %v, table says %v", tok.Type, tok.Range.End, cur)
		}
	}
	for cur.Byte < len(src) { // trailing blanks after the last token (EOF token is empty)
		cur.Byte++
		cur.Column++
		t.pos[cur.Byte] = cur
	}
	return t
}

// BuildPlain builds a table by segmenting the whole file into grapheme
// clusters (used for JSON files, which the harness keeps ASCII).
func BuildPlain(filename string, src []byte) *Table {
	t := &Table{Filename: filename, Len: len(src), pos: make([]hcl.Pos, len(src)+1)}
	cur := hcl.InitialPos
	t.pos[0] = cur
	b := src
	for len(b) > 0 {
		adv, seq, _ := textseg.ScanGraphemeClusters(b, true)
		if adv == 0 {
			break
		}
		if (len(seq) == 1 && seq[0] == '\n') || (len(seq) == 2 && seq[0] == '\r' && seq[1] == '\n') {
			cur.Line++
			cur.Column = 1
		} else {
			cur.Column++
		}
		cur.Byte += adv
		t.pos[cur.Byte] = cur
		b = b[adv:]
	}
	return t
}

// At returns the position of a byte offset and whether it is a boundary.
func (t *Table) At(off int) (hcl.Pos, bool) {
	if off < 0 || off > t.Len {
		return hcl.Pos{}, false
	}
	p := t.pos[off]
	return p, p.Line != 0
}

// Near returns a position for any offset in 0..Len: the exact one for
// boundaries, otherwise the preceding boundary's line/column with the raw
// byte offset (a "mid-rune" cursor a client could send; used by C01 only).
func (t *Table) Near(off int) hcl.Pos {
	if off < 0 {
		return hcl.Pos{Line: 1, Column: 1, Byte: off}
	}
	if off > t.Len {
		last := t.pos[t.Len]
		return hcl.Pos{Line: last.Line, Column: last.Column + (off - t.Len), Byte: off}
	}
	for o := off; o >= 0; o-- {
		if p := t.pos[o]; p.Line != 0 {
			p.Byte = off
			return p
		}
	}
	return hcl.Pos{Line: 1, Column: 1, Byte: off}
}

// Offsets lists all boundary offsets.
func (t *Table) Offsets() []int {
	out := make([]int, 0, t.Len+1)
	for o, p := range t.pos {
		if p.Line != 0 {
			out = append(out, o)
		}
	}
	return out
}

// Problem describes one malformed range.
type Problem struct {
	Path  string // field path inside the result value
	Range hcl.Range
	What  string
}

func (p Problem) String() string {
	return fmt.Sprintf("%s: %s (%s:%d,%d(%d)-%d,%d(%d))", p.Path, p.What, p.Range.Filename,
		p.Range.Start.Line, p.Range.Start.Column, p.Range.Start.Byte,
		p.Range.End.Line, p.Range.End.Column, p.Range.End.Byte)
}

// CheckRange validates one range against the tables of a path.
func CheckRange(tables map[string]*Table, r hcl.Range) string {
	t, ok := tables[r.Filename]
	if !ok {
		return fmt.Sprintf("file %q is not a file of this path", r.Filename)
	}
	if r.Start.Byte < 0 || r.End.Byte < r.Start.Byte || r.End.Byte > t.Len {
		return fmt.Sprintf("bytes not within 0 <= start <= end <= %d", t.Len)
	}
	for _, e := range []struct {
		n string
		p hcl.Pos
	}{{"start", r.Start}, {"end", r.End}} {
		want, ok := t.At(e.p.Byte)
		if t.fragile[e.p.Line] || (ok && t.fragile[want.Line]) {
			continue
		}
		if !ok {
			return fmt.Sprintf("%s byte %d is not on a character boundary", e.n, e.p.Byte)
		}
		if want.Line != e.p.Line || want.Column != e.p.Column {
			return fmt.Sprintf("%s is %d,%d but byte %d is at %d,%d", e.n, e.p.Line, e.p.Column, e.p.Byte, want.Line, want.Column)
		}
	}
	return ""
}

var (
	rangeT = reflect.TypeOf(hcl.Range{})
)

// Walker finds every hcl.Range in a value.
type Walker struct {
	// Visit is called for every range found, with the field path and the
	// struct value the range (or the pointer to it) is a field of.
	Visit func(path string, parent reflect.Value, r hcl.Range)
	seen  map[uintptr]bool
}

func (w *Walker) Walk(v interface{}) {
	w.seen = map[uintptr]bool{}
	w.walk(reflect.ValueOf(v), "", reflect.Value{})
}

func (w *Walker) walk(v reflect.Value, path string, parent reflect.Value) {
	if !v.IsValid() {
		return
	}
	if v.Type() == rangeT {
		r := hcl.Range{
			Filename: v.Field(0).String(),
			Start:    posOf(v.Field(1)),
			End:      posOf(v.Field(2)),
		}
		w.Visit(path, parent, r)
		return
	}
	switch v.Kind() {
	case reflect.Ptr:
		if v.IsNil() {
			return
		}
		a := v.Pointer()
		if w.seen[a] && v.Elem().Kind() == reflect.Struct && v.Elem().Type() != rangeT {
			return
		}
		w.seen[a] = true
		w.walk(v.Elem(), path, parent)
	case reflect.Interface:
		if v.IsNil() {
			return
		}
		w.walk(v.Elem(), path, parent)
	case reflect.Struct:
		t := v.Type()
		pk := t.PkgPath()
		// do not descend into cty / hclsyntax AST values held by results
		if strings.HasPrefix(pk, "github.com/zclconf/go-cty") || strings.HasPrefix(pk, "github.com/hashicorp/hcl/v2/hclsyntax") || pk == "math/big" {
			return
		}
		for i := 0; i < v.NumField(); i++ {
			w.walk(v.Field(i), path+"."+t.Field(i).Name, v)
		}
	case reflect.Slice, reflect.Array:
		for i := 0; i < v.Len(); i++ {
			w.walk(v.Index(i), path+"[]", parent)
		}
	case reflect.Map:
		it := v.MapRange()
		for it.Next() {
			w.walk(it.Value(), path+"{}", parent)
		}
	}
}

func posOf(v reflect.Value) hcl.Pos {
	return hcl.Pos{Line: int(v.Field(0).Int()), Column: int(v.Field(1).Int()), Byte: int(v.Field(2).Int())}
}
