// Package model holds the reference models (O8): small, independent,
// executable restatements of the property texts, evaluated next to the real
// library on generator-known inputs. They use only the public schema types.
package model

import (
	"encoding/json"
	"fmt"
	"sort"
	"strings"

	"github.com/hashicorp/hcl-lang/lang"
	"github.com/hashicorp/hcl-lang/schema"
	"github.com/hashicorp/hcl/v2/hclsyntax"
	"github.com/zclconf/go-cty/cty"
	ctyjson "github.com/zclconf/go-cty/cty/json"
)

// Lookup is the outcome of the dependent body selection.
type Lookup int

const (
	Unresolved Lookup = iota // keys present but no body registered for them
	Resolved
	Partial // first level found, second level (keyed by its attributes) not
	NoKeys  // the block has no dependency keys
)

func (l Lookup) String() string { return [...]string{"unresolved", "resolved", "partial", "nokeys"}[l] }

// Eff is the effective body schema of the model.
type Eff struct {
	Attrs  map[string]*schema.AttributeSchema
	Blocks map[string]*schema.BlockSchema
	Any    *schema.AttributeSchema
	Ext    schema.BodyExtensions
	Lookup Lookup
	Dep    *schema.BodySchema // selected dependent body (nil if none)
	Static *schema.BodySchema
	// Keys that selected Dep, in canonical form.
	Keys []KeyEntry
	// DynAncestor: some enclosing body (or this one) has DynamicBlocks on
	// (over-approximation used for don't-care zones).
	DynAncestor bool
	// Exact account of the DynamicBlocks extension as block bodies are merged:
	// SDyn: on for the static body of this block (own flag, or handed down by the
	// enclosing merged body); MergedDyn: in force for the merged body (enabled by the
	// static body as handed down, or by the selected dependent body): a dynamic block then
	// satisfies a minimum;
	// DynTypes: block types a dynamic block may generate here (nil: the merged body
	// declares no dynamic block); Propagated: nested block types whose static body
	// receives the extension from this body.
	SDyn, MergedDyn bool
	DynTypes        map[string]bool
	Propagated      map[string]bool
	// Known is false for bodies the schema says nothing about.
	Known bool
}

// KeyEntry is one key/value pair of a dependency key set, canonicalised.
type KeyEntry struct {
	Label  bool
	Index  int    // label index
	Name   string // attribute name
	Value  string // label value, or canonical JSON of the static value
	Addr   string // reference address (attribute keys)
	Source string // "label" | "literal" | "default" | "reference"
}

func (k KeyEntry) canon() string {
	if k.Label {
		return fmt.Sprintf("L|%d|%s", k.Index, k.Value)
	}
	return fmt.Sprintf("A|%s|%s|%s", k.Name, k.Value, k.Addr)
}

func canonSet(ks []KeyEntry) string {
	parts := make([]string, len(ks))
	for i, k := range ks {
		parts[i] = k.canon()
	}
	sort.Strings(parts)
	return strings.Join(parts, "\x00")
}

func staticCanon(v cty.Value) string {
	if v == cty.NilVal {
		return ""
	}
	b, err := json.Marshal(ctyjson.SimpleJSONValue{Value: v})
	if err != nil {
		return "?" + err.Error()
	}
	// normalise through a generic decode so that formatting does not matter
	var x interface{}
	if json.Unmarshal(b, &x) != nil {
		return string(b)
	}
	nb, _ := json.Marshal(x)
	return string(nb)
}

// ParseSchemaKey decodes a registered SchemaKey into its key set. The model
// does not rely on the library's ordering of the entries.
func ParseSchemaKey(k schema.SchemaKey) ([]KeyEntry, error) {
	var raw struct {
		Labels []struct {
			Index int    `json:"index"`
			Value string `json:"value"`
		} `json:"labels"`
		Attrs []struct {
			Name string `json:"name"`
			Expr struct {
				Static interface{} `json:"static"`
				Addr   string      `json:"addr"`
			} `json:"expr"`
		} `json:"attrs"`
	}
	if err := json.Unmarshal([]byte(k), &raw); err != nil {
		return nil, err
	}
	var out []KeyEntry
	for _, l := range raw.Labels {
		out = append(out, KeyEntry{Label: true, Index: l.Index, Value: l.Value})
	}
	for _, a := range raw.Attrs {
		e := KeyEntry{Name: a.Name, Addr: a.Expr.Addr}
		if a.Expr.Static != nil {
			nb, _ := json.Marshal(a.Expr.Static)
			e.Value = string(nb)
		}
		out = append(out, e)
	}
	return out, nil
}

// keysOfBlock computes the key set a block presents against a body schema.
func keysOfBlock(block *hclsyntax.Block, bs *schema.BlockSchema, body *schema.BodySchema, withLabels bool) (ks []KeyEntry, ok bool) {
	if withLabels {
		for i, l := range bs.Labels {
			if l.IsDepKey {
				if i >= len(block.Labels) {
					// A block written without one of its key labels is malformed
					// and the property is silent about it; the model follows the
					// decoder here (keys collected so far, attributes ignored) so
					// that this corner raises no alarm either way.
					return ks, true
				}
				ks = append(ks, KeyEntry{Label: true, Index: i, Value: block.Labels[i], Source: "label"})
			}
		}
	}
	if body == nil || block.Body == nil {
		return ks, true
	}
	names := make([]string, 0, len(body.Attributes))
	for n := range body.Attributes {
		names = append(names, n)
	}
	sort.Strings(names)
	for _, name := range names {
		as := body.Attributes[name]
		if !as.IsDepKey {
			continue
		}
		if attr, ok := block.Body.Attributes[name]; ok {
			if st, ok := attr.Expr.(*hclsyntax.ScopeTraversalExpr); ok {
				addr, err := lang.TraversalToAddress(st.Traversal)
				if err != nil {
					continue
				}
				b, err := addr.Marshal()
				if err != nil {
					continue
				}
				ks = append(ks, KeyEntry{Name: name, Addr: string(b), Source: "reference"})
				continue
			}
			v, diags := attr.Expr.Value(nil)
			if len(diags) > 0 && v.IsNull() {
				continue
			}
			ks = append(ks, KeyEntry{Name: name, Value: staticCanon(v), Source: "literal"})
		} else if dv, ok := as.DefaultValue.(schema.DefaultValue); ok {
			ks = append(ks, KeyEntry{Name: name, Value: staticCanon(dv.Value), Source: "default"})
		}
	}
	return ks, true
}

// lookup finds the dependent body registered under a key set (independent of
// the library's key ordering).
func lookup(bs *schema.BlockSchema, ks []KeyEntry) (*schema.BodySchema, bool) {
	want := canonSet(ks)
	for k, body := range bs.DependentBody {
		es, err := ParseSchemaKey(k)
		if err != nil {
			continue
		}
		if canonSet(es) == want {
			return body, true
		}
	}
	return nil, false
}

func hasDepKeyAttrs(b *schema.BodySchema) bool {
	if b == nil {
		return false
	}
	for _, a := range b.Attributes {
		if a.IsDepKey {
			return true
		}
	}
	return false
}

// Effective computes the effective body schema of a block as the property
// states it: static body overlaid with the dependent body registered under
// the block's dependency keys, with one further level keyed by attributes of
// the first.
func Effective(block *hclsyntax.Block, bs *schema.BlockSchema, parent *Eff) *Eff {
	e := effective0(block, bs, parent)
	e.dynFacts(bs.Body, parent != nil && parent.Propagated[block.Type])
	return e
}

func effective0(block *hclsyntax.Block, bs *schema.BlockSchema, parent *Eff) *Eff {
	e := &Eff{Attrs: map[string]*schema.AttributeSchema{}, Blocks: map[string]*schema.BlockSchema{}, Static: bs.Body, Known: true}
	if bs.Body != nil {
		for k, v := range bs.Body.Attributes {
			e.Attrs[k] = v
		}
		for k, v := range bs.Body.Blocks {
			e.Blocks[k] = v
		}
		e.Any = bs.Body.AnyAttribute
		if bs.Body.Extensions != nil {
			e.Ext = *bs.Body.Extensions
		}
	}
	if parent != nil && parent.DynAncestor {
		e.DynAncestor = true
	}
	ks, ok := keysOfBlock(block, bs, bs.Body, true)
	if !ok {
		ks = nil
	}
	e.Keys = ks
	if len(ks) == 0 {
		e.Lookup = NoKeys
		if e.Ext.DynamicBlocks {
			e.DynAncestor = true
		}
		return e
	}
	dep, found := lookup(bs, ks)
	if !found {
		e.Lookup = Unresolved
		if e.Ext.DynamicBlocks {
			e.DynAncestor = true
		}
		return e
	}
	e.Lookup = Resolved
	if hasDepKeyAttrs(dep) {
		ks2, _ := keysOfBlock(block, bs, dep, true)
		if dep2, ok := lookup(bs, ks2); ok && len(ks2) > 0 {
			dep = dep2
			e.Keys = ks2
		} else {
			e.Lookup = Partial
		}
	}
	e.Dep = dep
	for k, v := range dep.Attributes {
		e.Attrs[k] = v
	}
	for k, v := range dep.Blocks {
		e.Blocks[k] = v
	}
	if dep.Extensions != nil {
		e.Ext = *dep.Extensions
	}
	if e.Ext.DynamicBlocks || (bs.Body != nil && bs.Body.Extensions != nil && bs.Body.Extensions.DynamicBlocks) {
		e.DynAncestor = true
	}
	return e
}

// EffRoot is the effective schema of the root body.
func EffRoot(b *schema.BodySchema) *Eff {
	e := &Eff{Attrs: map[string]*schema.AttributeSchema{}, Blocks: map[string]*schema.BlockSchema{}, Lookup: NoKeys, Static: b, Known: b != nil}
	if b == nil {
		return e
	}
	for k, v := range b.Attributes {
		e.Attrs[k] = v
	}
	for k, v := range b.Blocks {
		e.Blocks[k] = v
	}
	e.Any = b.AnyAttribute
	if b.Extensions != nil {
		e.Ext = *b.Extensions
		e.DynAncestor = b.Extensions.DynamicBlocks
	}
	return e
}

// AttrSchema returns the schema of a written attribute in the effective body
// (count / for_each where the extension is on), or nil.
func (e *Eff) AttrSchema(name string) (*schema.AttributeSchema, string) {
	if !e.Known {
		return nil, ""
	}
	if e.Ext.Count && name == "count" {
		return &schema.AttributeSchema{IsOptional: true, Constraint: schema.AnyExpression{OfType: cty.Number}}, "count"
	}
	if e.Ext.ForEach && name == "for_each" {
		return &schema.AttributeSchema{IsOptional: true, Constraint: schema.OneOf{
			schema.AnyExpression{OfType: cty.Map(cty.DynamicPseudoType)},
			schema.AnyExpression{OfType: cty.Set(cty.String)},
		}}, "for_each"
	}
	if a, ok := e.Attrs[name]; ok {
		return a, "attr"
	}
	if e.Any != nil {
		return e.Any, "any"
	}
	return nil, ""
}

// dynFacts follows schemahelper.MergeBlockBodySchemas as the property's texts
// describe it: a body whose static schema has DynamicBlocks declares a
// "dynamic" block for the block types of the selected dependent body (or, with
// no dependent body in force, for all its block types) and hands the extension
// down to exactly those nested blocks that have a body.
func (e *Eff) dynFacts(static *schema.BodySchema, handedDown bool) {
	e.SDyn = handedDown || (static != nil && static.Extensions != nil && static.Extensions.DynamicBlocks)
	e.MergedDyn = e.SDyn
	var from map[string]*schema.BlockSchema
	if e.Dep != nil && (e.Lookup == Resolved || e.Lookup == Partial) {
		from = e.Dep.Blocks
		// the extension is in force for the merged body when either side enables it
		if e.Dep.Extensions != nil && e.Dep.Extensions.DynamicBlocks {
			e.MergedDyn = true
		}
	} else if static != nil {
		from = static.Blocks
	}
	if e.SDyn && len(from) > 0 {
		e.DynTypes, e.Propagated = map[string]bool{}, map[string]bool{}
		for k, nb := range from {
			e.DynTypes[k] = true
			if nb.Body != nil {
				e.Propagated[k] = true
			}
		}
	}
}

// EffContent is the effective schema of the content block of a dynamic block
// generating blocks of the given type: the type's static body, no dependent
// bodies (no labels to select one).
func EffContent(tbs *schema.BlockSchema, label string, parent *Eff) *Eff {
	e := EffRoot(tbs.Body)
	e.DynAncestor = true
	e.dynFacts(tbs.Body, parent != nil && parent.Propagated[label])
	return e
}
