package model

import (
	"fmt"
	"strings"

	"github.com/hashicorp/hcl-lang/schema"
	"github.com/hashicorp/hcl/v2"
	"github.com/hashicorp/hcl/v2/hclsyntax"
)

// Diag is a model diagnostic: severity, rule, offending item and the item's
// extent (the subject must lie on the offending item).
type Diag struct {
	Sev   string
	Rule  string
	Item  string
	Where hcl.Range // extent of the offending item (attribute, block, or body for "missing"/count rules)
	InDyn bool      // lies inside a dynamic block (don't-care zone)
}

func (d Diag) Key() string {
	return fmt.Sprintf("%s/%s/%s@%d", d.Sev, d.Rule, d.Item, d.Where.Start.Byte)
}

// Validate is M-valid: the eight stock rules over the effective schema.
// unknown: nothing is reported as unexpected (dependent body unresolved
// somewhere above). inDyn marks the don't-care zone.
func Validate(body *hclsyntax.Body, e *Eff, unknown bool, inDyn bool, extent hcl.Range) []Diag {
	var out []Diag
	add := func(sev, rule, item string, where hcl.Range) {
		out = append(out, Diag{sev, rule, item, where, inDyn})
	}
	for name, attr := range body.Attributes {
		as, _ := e.AttrSchema(name)
		if as == nil {
			if !unknown && e.Known {
				add("error", "unexpected-attr", name, attr.SrcRange)
			}
			continue
		}
		if as.IsDeprecated {
			add("warning", "deprecated", name, attr.SrcRange)
		}
	}
	found := map[string]uint64{}
	dyn := map[string]uint64{}
	for _, blk := range body.Blocks {
		found[blk.Type]++
		if blk.Type == "dynamic" && len(blk.Labels) > 0 {
			dyn[blk.Labels[0]]++
		}
		var bs *schema.BlockSchema
		if e.Known {
			bs = e.Blocks[blk.Type]
		}
		if blk.Type == "dynamic" && e.DynAncestor && bs == nil {
			// synthesized dynamic block: everything inside is a don't-care zone
			out = append(out, Validate(blk.Body, &Eff{}, true, true, blk.Range())...)
			continue
		}
		if bs == nil {
			if !unknown && e.Known {
				add("error", "unexpected-block", blk.Type, blk.Range())
			}
			out = append(out, Validate(blk.Body, &Eff{}, true, inDyn, blk.Range())...)
			continue
		}
		if bs.IsDeprecated {
			add("warning", "deprecated", blk.Type, blk.Range())
		}
		for i := range blk.Labels {
			if i >= len(bs.Labels) {
				add("error", "too-many-labels", blk.Type, blk.Range())
			}
		}
		if len(bs.Labels) > len(blk.Labels) {
			add("error", "not-enough-labels", blk.Type, blk.Range())
		}
		if bs.Body == nil {
			// the schema says nothing about this body
			out = append(out, Validate(blk.Body, &Eff{}, true, inDyn, blk.Range())...)
			continue
		}
		ne := Effective(blk, bs, e)
		nu := unknown || ne.Lookup == Unresolved || ne.Lookup == Partial
		out = append(out, Validate(blk.Body, ne, nu, inDyn, blk.Range())...)
	}
	if e.Known {
		for name, as := range e.Attrs {
			if as.IsRequired {
				if _, ok := body.Attributes[name]; !ok {
					add("error", "missing-required", name, extent)
				}
			}
		}
		for name, bs := range e.Blocks {
			if bs.MaxItems != 0 && found[name] > bs.MaxItems {
				add("error", "too-many-blocks", name, extent)
			}
			if bs.MinItems != 0 && found[name] < bs.MinItems && !(e.MergedDyn && dyn[name] > 0) {
				add("error", "too-few-blocks", name, extent)
			}
		}
	}
	return out
}

// RuleOf classifies a real diagnostic by its summary.
func RuleOf(d *hcl.Diagnostic) (sev, rule, item string) {
	sev = "error"
	if d.Severity == hcl.DiagWarning {
		sev = "warning"
	}
	s := d.Summary
	q := func(str string) string { // first quoted word
		i := strings.Index(str, "\"")
		if i < 0 {
			return ""
		}
		j := strings.Index(str[i+1:], "\"")
		if j < 0 {
			return ""
		}
		return str[i+1 : i+1+j]
	}
	switch {
	case strings.HasPrefix(s, "Unexpected attribute"):
		return sev, "unexpected-attr", q(d.Detail)
	case strings.HasPrefix(s, "Unexpected block"):
		return sev, "unexpected-block", q(d.Detail)
	case strings.HasPrefix(s, "Required attribute"):
		return sev, "missing-required", q(s)
	case strings.HasPrefix(s, "Too many labels"):
		return sev, "too-many-labels", q(s)
	case strings.HasPrefix(s, "Not enough labels"):
		return sev, "not-enough-labels", q(s)
	case strings.HasPrefix(s, "Too many blocks"):
		return sev, "too-many-blocks", q(s)
	case strings.HasPrefix(s, "Too few blocks"):
		return sev, "too-few-blocks", q(s)
	case strings.HasSuffix(s, "is deprecated"):
		return sev, "deprecated", q(s)
	}
	return sev, "?" + s, ""
}
