package model

import (
	"sort"
	"strings"

	"github.com/hashicorp/hcl-lang/schema"
	"github.com/hashicorp/hcl/v2"
	"github.com/hashicorp/hcl/v2/hclsyntax"
)

// PosClass describes where a cursor sits, derived from the AST and the
// model's own effective schema (never from the library).
type PosClass struct {
	// Kind: body-ws (decided, empty prefix), ident-end (decided: lone identifier
	// directly followed by newline/EOF), attr-name, block-type, label,
	// soundness-only (typed prefix not defined by the property), other.
	Kind   string
	Body   *hclsyntax.Body
	Eff    *Eff
	Prefix string
	Block  *hclsyntax.Block
	BS     *schema.BlockSchema
	Label  int
	Path   string
	InDyn  bool
	// Attr is set for Kind "value": the attribute whose value holds the cursor.
	Attr       *hclsyntax.Attribute
	AttrSchema *schema.AttributeSchema
	// Unknown: an enclosing block's dependent body could not be resolved.
	Unknown bool
}

func inRange(r hcl.Range, b int) bool { return r.Start.Byte <= b && b < r.End.Byte }

func isIdentByte(c byte) bool {
	return c == '_' || c == '-' || c >= '0' && c <= '9' || c >= 'a' && c <= 'z' || c >= 'A' && c <= 'Z' || c >= 0x80
}

// Classify walks the AST with the model's effective schema.
func Classify(src []byte, body *hclsyntax.Body, e *Eff, off int, path string, inDyn, unknown bool) PosClass {
	for _, a := range body.Attributes {
		if off == a.NameRange.End.Byte {
			// the typed prefix at the very end of a name that is followed by more
			// text on its line is not defined by the property
			return PosClass{Kind: "soundness-only", Body: body, Eff: e, Prefix: string(src[a.NameRange.Start.Byte:off]), Path: path, InDyn: inDyn, Attr: a, Unknown: unknown}
		}
		if inRange(a.NameRange, off) {
			return PosClass{Kind: "attr-name", Body: body, Eff: e, Prefix: string(src[a.NameRange.Start.Byte:off]), Path: path, InDyn: inDyn, Attr: a, Unknown: unknown}
		}
		er := a.Expr.Range()
		if inRange(a.SrcRange, off) || off == er.End.Byte || off == a.SrcRange.End.Byte {
			as, _ := e.AttrSchema(a.Name)
			kind := "value"
			if off < er.Start.Byte {
				kind = "other" // between name, '=' and the value
			}
			return PosClass{Kind: kind, Path: path + "/attr:" + a.Name, Body: body, Eff: e, Attr: a, AttrSchema: as, InDyn: inDyn, Unknown: unknown}
		}
	}
	for _, b := range body.Blocks {
		br := b.Range()
		if !(inRange(br, off) || off == br.End.Byte) {
			continue
		}
		var bs *schema.BlockSchema
		if e.Known {
			bs = e.Blocks[b.Type]
		}
		if inRange(b.TypeRange, off) || off == b.TypeRange.End.Byte {
			if bs == nil {
				return PosClass{Kind: "other", Path: path + "/unknown-block-type", InDyn: inDyn}
			}
			if off == b.TypeRange.End.Byte {
				return PosClass{Kind: "soundness-only", Body: body, Eff: e, Prefix: string(src[b.TypeRange.Start.Byte:off]), Path: path, Block: b, BS: bs, InDyn: inDyn, Unknown: unknown}
			}
			return PosClass{Kind: "block-type", Body: body, Eff: e, Prefix: string(src[b.TypeRange.Start.Byte:off]), Path: path, Block: b, BS: bs, InDyn: inDyn, Unknown: unknown}
		}
		dyn := inDyn || (b.Type == "dynamic" && bs == nil && e.DynAncestor)
		if bs == nil && b.Type == "dynamic" && !inDyn && e.Known && e.DynTypes != nil {
			// the label of a dynamic block names one of the block types it can generate
			for i, lr := range b.LabelRanges {
				if i == 0 && (inRange(lr, off) || off == lr.End.Byte) {
					return PosClass{Kind: "dyn-label", Block: b, Label: i, Path: path, Eff: e, InDyn: false, Unknown: unknown}
				}
			}
		}
		if bs == nil {
			return PosClass{Kind: "other", Path: path + "/unknown-block", InDyn: dyn}
		}
		for i, lr := range b.LabelRanges {
			if inRange(lr, off) || off == lr.End.Byte {
				return PosClass{Kind: "label", Block: b, BS: bs, Label: i, Path: path, Eff: e, InDyn: dyn, Unknown: unknown}
			}
		}
		if off <= b.OpenBraceRange.Start.Byte || off >= b.CloseBraceRange.End.Byte && b.CloseBraceRange.End.Byte > 0 {
			return PosClass{Kind: "other", Path: path + "/header", InDyn: dyn}
		}
		if b.Body == nil {
			return PosClass{Kind: "other", Path: path + "/nobody", InDyn: dyn}
		}
		if off == br.End.Byte {
			return PosClass{Kind: "other", Path: path + "/block-end", InDyn: dyn}
		}
		if bs.Body == nil && len(bs.DependentBody) == 0 {
			return PosClass{Kind: "other", Path: path + "/nil-body", InDyn: dyn}
		}
		ne := Effective(b, bs, e)
		nu := unknown || ne.Lookup == Unresolved || ne.Lookup == Partial
		return Classify(src, b.Body, ne, off, path+"/"+b.Type, dyn, nu)
	}
	// body white space
	i := off
	for i > 0 && isIdentByte(src[i-1]) {
		i--
	}
	prefix := string(src[i:off])
	right := byte('\n')
	if off < len(src) {
		right = src[off]
	}
	left := byte('\n')
	if off > 0 {
		left = src[off-1]
	}
	pc := PosClass{Body: body, Eff: e, Prefix: prefix, Path: path, InDyn: inDyn, Unknown: unknown}
	switch {
	case prefix == "" && (left == ' ' || left == '\t' || left == '\n' || left == '{') && (right == ' ' || right == '\t' || right == '\n' || right == '\r' || right == '}'):
		pc.Kind = "body-ws"
	case prefix != "" && (right == '\n' || right == '\r') && lineIsLoneIdent(src, i, off):
		pc.Kind = "ident-end"
	default:
		pc.Kind = "soundness-only"
	}
	return pc
}

// lineIsLoneIdent: only blanks precede the identifier on its line.
func lineIsLoneIdent(src []byte, identStart, off int) bool {
	j := identStart
	for j > 0 && (src[j-1] == ' ' || src[j-1] == '\t') {
		j--
	}
	return j == 0 || src[j-1] == '\n'
}

// Expected is the model's answer for a body / name / type position.
type Expected struct {
	Must     []string        // exactly these (sorted) ...
	Optional map[string]bool // ... plus possibly these (don't-care)
}

// BodyCandidates is M-body.
func BodyCandidates(pc PosClass) Expected {
	ex := Expected{Optional: map[string]bool{}}
	e := pc.Eff
	set := map[string]bool{}
	declared := func(name string) bool {
		a, ok := pc.Body.Attributes[name]
		if !ok {
			return false
		}
		// the attribute being renamed at the cursor does not count as declared
		return pc.Attr == nil || a != pc.Attr
	}
	if e.Ext.Count && !declared("count") && strings.HasPrefix("count", pc.Prefix) {
		set["count"] = true
	}
	if e.Ext.ForEach && !declared("for_each") && strings.HasPrefix("for_each", pc.Prefix) {
		set["for_each"] = true
	}
	for name, a := range e.Attrs {
		if a.IsComputed && !a.IsOptional {
			continue
		}
		if declared(name) || !strings.HasPrefix(name, pc.Prefix) {
			continue
		}
		set[name] = true
	}
	if len(e.Attrs) == 0 && e.Any != nil {
		ex.Optional["name"] = true
	}
	for bt, bs := range e.Blocks {
		if _, ok := e.Attrs[bt]; ok {
			continue // attribute wins a name clash
		}
		if bs.MaxItems > 0 {
			n := uint64(0)
			for _, b := range pc.Body.Blocks {
				if b.Type == bt && b != pc.Block {
					n++
				}
			}
			if n >= bs.MaxItems {
				continue
			}
		}
		if !strings.HasPrefix(bt, pc.Prefix) {
			continue
		}
		set[bt] = true
	}
	if e.DynAncestor && strings.HasPrefix("dynamic", pc.Prefix) {
		if !set["dynamic"] {
			ex.Optional["dynamic"] = true
		}
	}
	for k := range set {
		ex.Must = append(ex.Must, k)
	}
	sort.Strings(ex.Must)
	return ex
}

// LabelCandidates: the dependent-body label values at that label index with
// the typed prefix (sorted, unique).
func LabelCandidates(pc PosClass, prefix string) []string {
	set := map[string]bool{}
	if pc.Label >= len(pc.BS.Labels) || !pc.BS.Labels[pc.Label].Completable {
		return nil
	}
	for k := range pc.BS.DependentBody {
		es, err := ParseSchemaKey(k)
		if err != nil {
			continue
		}
		for _, e := range es {
			if e.Label && e.Index == pc.Label && strings.HasPrefix(e.Value, prefix) {
				set[e.Value] = true
			}
		}
	}
	var out []string
	for k := range set {
		out = append(out, k)
	}
	sort.Strings(out)
	return out
}
