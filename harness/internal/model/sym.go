package model

import (
	"fmt"
	"sort"

	"github.com/hashicorp/hcl/v2"
	"github.com/hashicorp/hcl/v2/hclsyntax"
	"github.com/zclconf/go-cty/cty"
)

// Sym is a model symbol.
type Sym struct {
	Kind     string // attribute | block | expr
	Name     string
	Range    hcl.Range
	Children []Sym
}

// Symbols is M-sym: the outline of a native syntax body by a direct walk.
func Symbols(body *hclsyntax.Body) []Sym {
	var out []Sym
	if body == nil {
		return out
	}
	for name, attr := range body.Attributes {
		out = append(out, Sym{Kind: "attribute", Name: name, Range: attr.SrcRange, Children: exprSymbols(attr.Expr)})
	}
	for _, b := range body.Blocks {
		name := b.Type
		for _, l := range b.Labels {
			name += fmt.Sprintf(" %q", l)
		}
		out = append(out, Sym{Kind: "block", Name: name, Range: b.Range(), Children: Symbols(b.Body)})
	}
	sort.SliceStable(out, func(i, j int) bool { return out[i].Range.Start.Byte < out[j].Range.Start.Byte })
	return out
}

func exprSymbols(expr hclsyntax.Expression) []Sym {
	var out []Sym
	switch e := expr.(type) {
	case *hclsyntax.TupleConsExpr:
		for i, item := range e.Exprs {
			out = append(out, Sym{Kind: "expr", Name: fmt.Sprintf("%d", i), Range: item.Range(), Children: exprSymbols(item)})
		}
	case *hclsyntax.ObjectConsExpr:
		for _, item := range e.Items {
			key, _ := item.KeyExpr.Value(nil)
			if key.IsNull() || !key.IsWhollyKnown() || key.Type() != cty.String {
				continue // not literally keyed
			}
			out = append(out, Sym{Kind: "expr", Name: key.AsString(), Range: hcl.RangeBetween(item.KeyExpr.Range(), item.ValueExpr.Range()), Children: exprSymbols(item.ValueExpr)})
		}
	}
	return out
}
