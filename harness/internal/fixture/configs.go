package fixture

import "strings"

const childMain = `variable "name" {
  type        = string
  description = "who to greet"
}

variable "size" {
  type    = number
  default = 3
}

output "greeting" {
  value = "hello ${var.name}"
}

output "total" {
  value = max(var.size + 1, 2)
}

exports {
  note = "nested targetables"
}

output "shout" {
  value = upper(var.name, "en")
}

output "stamp" {
  value = timestamp("utc")
}
`

const rootMain = `terraform {
  required_version = ">= 1.0"
  required_providers {
    aws = {
      source  = "hashicorp/aws"
      version = "~> 5.0"
    }
  }
  backend "s3" {
    bucket = "state"
    key    = "root.tfstate"
  }
}

provider "aws" {
  region      = var.region
  max_retries = 3
}

provider "aws" {
  alias  = "west"
  region = "us-west-2"
  assume_role {
    role_arn = "arn:aws:iam::1:role/x"
  }
}

variable "region" {
  type    = string
  default = "eu-central-1"
}

variable "sizes" {
  type = map(object({
    cores = number
    tags  = optional(list(string))
  }))
  default = {}
}

variable "enabled" {
  type      = bool
  default   = true
  sensitive = false
  validation {
    condition     = var.enabled == true || var.enabled == false
    error_message = "must be bool"
  }
}

locals {
  prefix = "app-${var.region}"
  ports  = [80, 443]
  meta = {
    owner = "team"
    cost  = 12.5
  }
  upper_prefix = upper(local.prefix)
}

data "aws_ami" "ubuntu" {
  most_recent = true
  owners      = ["099720109477", lower(var.region)]
  filter {
    name   = "name"
    values = ["ubuntu-*"]
  }
  exclude {
    name = "beta"
  }
  lookup {
    region = var.region
  }
  retry {
    attempts = 3
  }
}

# a label with a dot: its address renders like a longer address of another shape
data "aws_ami" "ubuntu.id" {
  most_recent = false
}

data "terraform_remote_state" "net" {
  backend = "s3"
  config = {
    bucket = "net-state"
    key    = "net.tfstate"
  }
}

resource "aws_instance" "web" {
  count         = length(local.ports)
  ami           = data.aws_ami.ubuntu.id
  instance_type = var.enabled ? "t2.micro" : "t3.large"
  monitoring    = !var.enabled
  secret        = "s-${self.ami}"
  token         = "t-${local.prefix}"
  passphrase    = "p"
  tags = {
    Name = format("%s-%d", local.prefix, count.index)
    Env  = local.meta.owner
  }
  cpu = {
    cores   = 2
    threads = max(1, 2, count.index)
  }
  private_ips = [for p in local.ports : "10.0.0.${p}"]
  ebs_block_device {
    device_name = "/dev/sda1"
    volume_size = 10 * 2
  }
  routes = [
    { cidr = "10.0.0.0/8", gateway = "10.0.0.1" },
    { cidr = "0.0.0.0/0", gateway = self.id },
  ]
  network_interface {
    device_index = 0
    network_id   = self.id
    addresses    = ["10.0.0.1", "10.0.0.2", "10.0.0.3"]
    labels = {
      tier = "web"
      zone = "a"
    }
    access_config {
      nat_ip = "10.1.1.1"
      rule {
        port = 22
      }
      dynamic "rule" {
        for_each = local.ports
        content {
          port = rule.value
        }
      }
    }
    dynamic "access_config" {
      for_each = var.sizes
      content {
        nat_ip = access_config.key
      }
    }
  }
  ebs_block_device {
    device_name = join("/", ["", "dev", "sdb"])
    encrypted   = true
  }
  volume "ssd" "data" {
    size = 10
  }
  timeouts {
    create = "10m"
  }
  lifecycle {
    create_before_destroy = true
    ignore_changes        = [aws_instance.web, aws_s3_bucket.logs]
  }
  provisioner "local-exec" {
    when    = destroy
    command = "echo ${self.id}"
  }
  depends_on = [aws_s3_bucket.logs, data.aws_ami.ubuntu, module.kid]
}

resource "aws_instance" "west" {
  provider      = aws.west
  for_each      = var.sizes
  ami           = "ami-123"
  instance_type = each.value.cores > 2 ? "t3.large" : each.key
  depends_on    = [data.aws_ami.ubuntu.id]
  security_groups = var.enabled ? [local.prefix, "static", lower(var.region)] : []
  tags            = var.enabled ? { Name = local.prefix, Owner = "ops" } : {}
  dynamic "ebs_block_device" {
    for_each = each.value.tags
    content {
      device_name = ebs_block_device.value
    }
  }
}

resource "aws_s3_bucket" "logs" {
  bucket        = "${local.prefix}-logs"
  acl           = "private"
  force_destroy = false
  rules = [
    {
      id      = "expire"
      enabled = true
      days    = 30 + 1
      target  = aws_instance.web
    },
    {
      id = "other"
    },
  ]
  cors = {
    get  = ["a.example.com", "b.example.com"]
    post = []
  }
  pair = ["left", 2]
  versioning "main" {
    enabled = true
  }
  versioning "replica" {
    enabled = var.enabled
  }
}

resource "null_resource" "n" {
  triggers = {
    always = timestamp()
  }
}

module "kid" {
  source = "./child"
  name   = "world"
  size   = local.ports[0]
  region = var.region
  inputs = {
    name = local.prefix
    size = 2
  }
}

output "second_device" {
  value = aws_instance.web.ebs_block_device[1].device_name
}

output "arn_account" {
  value = provider::aws:: arn_parse(aws_instance.web[0].arn)
}

output "instance_ids" {
  value       = aws_instance.web[*].id
  description = "ids"
  depends_on  = [aws_instance.web]
}

output "hello" {
  value     = module.kid.greeting
  sensitive = false
}

moved {
  from = aws_instance.old
  to   = aws_instance.web
}

check "health" {
  assert {
    condition     = length(aws_instance.web) > 0
    error_message = "no instances"
  }
}
`

const rootVars = `variable "extra" {
  type    = list(string)
  default = ["a", "b"]
}

output "net" {
  value = data.terraform_remote_state.net.outputs
}

resource "aws_s3_bucket" "second" {
  bucket = substr(local.upper_prefix, 0, 3)
  tags = {
    (var.region) = "x"
    "quoted key" = element(var.extra, 1)
  }
}
`

// multi-byte text: precomposed letters, CJK, emoji, combining marks inside
// strings, comments and (where HCL allows) identifiers.
const rootUnicode = `# Überschrift — 設定ファイル 🚀
variable "größe" {
  type    = string
  default = "naïve café ☕" # комментарий
}

locals {
  emoji   = "👩‍👩‍👧‍👦 family" /* ZWJ sequence */
  combine = "é vs é"
  日本語     = var.größe
  mixed   = "${local.emoji}→${var.größe}" // trailing ✓
}

resource "aws_s3_bucket" "ünï" {
  bucket = "b-${local.日本語}"
  acl    = "pübliç-réad" # ✓ öffentlich zugänglich
  tags = {
    "ключ" = upper("значение")
    naïve  = local.combine
  }
}

output "ünï_out" {
  value = aws_s3_bucket.ünï.id
}
`

const smallMain = `variable "a" {
  type = string
}

locals {
  b = var.a
}

resource "aws_instance" "one" {
  ami           = local.b
  instance_type = "t2.micro"
  ebs_block_device {
    device_name = upper(var.a)
  }
}

output "o" {
  value = aws_instance.one.id
}
`

const rootJSON = `{
  "variable": {
    "jv": {
      "type": "string",
      "default": "x"
    }
  },
  "locals": {
    "jl": "${var.jv}",
    "jlist": ["a", "${var.jv}"]
  },
  "resource": {
    "aws_s3_bucket": {
      "jb": {
        "bucket": "${local.jl}-b",
        "force_destroy": true,
        "tags": {
          "k": "v"
        }
      }
    }
  },
  "output": {
    "jo": {
      "value": "${aws_s3_bucket.jb.id}"
    }
  }
}
`

// two files of one module: a.tf holds a counted block right at the top and its
// only reference far down; b.tf holds references and number-typed values at
// low byte offsets (inside the byte span of a.tf's block).
const twoFilesA = `resource "aws_instance" "counted" {
  count         = 2
  ami           = "ami-0123456789"
  instance_type = "t2.micro"
  monitoring    = true
  tags = {
    Name  = "counted"
    Owner = "team-a"
  }
  ebs_block_device {
    device_name = "/dev/sda1"
  }
}

output "late" {
  value = var.shared
}
`

const twoFilesB = `resource "aws_instance" "plain" {
  ebs_block_device {
    volume_size = 1
    device_name = lower(var.shared)
  }
  ami           = var.shared
  instance_type = aws_instance.counted.instance_type
}

variable "shared" {
  type = string
}
`

func crlf(s string) string { return strings.ReplaceAll(s, "\n", "\r\n") }

var configs = map[string]config{
	"tf-main": {
		Root:  map[string]string{"main.tf": rootMain, "vars.tf": rootVars},
		Child: map[string]string{"kid.tf": childMain},
	},
	"tf-small": {
		Root: map[string]string{"main.tf": smallMain},
	},
	"tf-unicode": {
		Root: map[string]string{"uni.tf": rootUnicode},
	},
	"tf-crlf": {
		Root:  map[string]string{"main.tf": crlf(smallMain), "uni.tf": crlf(rootUnicode)},
		Child: map[string]string{"kid.tf": crlf(childMain)},
	},
	"tf-json": {
		Root: map[string]string{"main.tf.json": rootJSON, "main.tf": smallMain},
	},
	"tf-twofiles": {
		Root: map[string]string{"a.tf": twoFilesA, "b.tf": twoFilesB},
	},
	// two root modules with byte-identical main.tf calling the same child module:
	// origins of the two paths share file name and range
	"tf-twins": {
		Root:  map[string]string{"main.tf": "module \"kid\" {\n  source = \"./child\"\n  name   = \"n\"\n  size   = 2\n}\n\noutput \"g\" {\n  value = module.kid.greeting\n}\n"},
		Child: map[string]string{"kid.tf": childMain},
		Twin:  true,
	},
	// the child module is referenced but cannot be read; the module call is written
	// twice (a half-edited buffer), the root declares variables of the child's names
	"tf-childfail": {
		Root:      map[string]string{"main.tf": "variable \"name\" {\n  type    = string\n  default = \"root\"\n}\n\nvariable \"size\" {\n  type = number\n}\n\nmodule \"kid\" {\n  source = \"./child\"\n  name   = var.name\n  size   = var.size\n}\n\nmodule \"kid\" {\n  source = \"./child\"\n  name   = \"again\"\n}\n\noutput \"g\" {\n  value = \"${module.kid.greeting} ${module.kid.total}\"\n}\n"},
		Child:     map[string]string{"kid.tf": childMain},
		FailChild: true,
	},
	// more than 100 declarations of one kind: reference candidates above the limit
	"tf-many": {
		Root: map[string]string{"main.tf": "locals {\n  m000 = 0\n  m001 = 1\n  m002 = 2\n  m003 = 3\n  m004 = 4\n  m005 = 5\n  m006 = 6\n  m007 = 7\n  m008 = 8\n  m009 = 9\n  m010 = 10\n  m011 = 11\n  m012 = 12\n  m013 = 13\n  m014 = 14\n  m015 = 15\n  m016 = 16\n  m017 = 17\n  m018 = 18\n  m019 = 19\n  m020 = 20\n  m021 = 21\n  m022 = 22\n  m023 = 23\n  m024 = 24\n  m025 = 25\n  m026 = 26\n  m027 = 27\n  m028 = 28\n  m029 = 29\n  m030 = 30\n  m031 = 31\n  m032 = 32\n  m033 = 33\n  m034 = 34\n  m035 = 35\n  m036 = 36\n  m037 = 37\n  m038 = 38\n  m039 = 39\n  m040 = 40\n  m041 = 41\n  m042 = 42\n  m043 = 43\n  m044 = 44\n  m045 = 45\n  m046 = 46\n  m047 = 47\n  m048 = 48\n  m049 = 49\n  m050 = 50\n  m051 = 51\n  m052 = 52\n  m053 = 53\n  m054 = 54\n  m055 = 55\n  m056 = 56\n  m057 = 57\n  m058 = 58\n  m059 = 59\n  m060 = 60\n  m061 = 61\n  m062 = 62\n  m063 = 63\n  m064 = 64\n  m065 = 65\n  m066 = 66\n  m067 = 67\n  m068 = 68\n  m069 = 69\n  m070 = 70\n  m071 = 71\n  m072 = 72\n  m073 = 73\n  m074 = 74\n  m075 = 75\n  m076 = 76\n  m077 = 77\n  m078 = 78\n  m079 = 79\n  m080 = 80\n  m081 = 81\n  m082 = 82\n  m083 = 83\n  m084 = 84\n  m085 = 85\n  m086 = 86\n  m087 = 87\n  m088 = 88\n  m089 = 89\n  m090 = 90\n  m091 = 91\n  m092 = 92\n  m093 = 93\n  m094 = 94\n  m095 = 95\n  m096 = 96\n  m097 = 97\n  m098 = 98\n  m099 = 99\n  m100 = 100\n  m101 = 101\n  m102 = 102\n  m103 = 103\n  m104 = 104\n  m105 = 105\n  m106 = 106\n  m107 = 107\n  m108 = 108\n  m109 = 109\n  m110 = 110\n  m111 = 111\n  m112 = 112\n  m113 = 113\n  m114 = 114\n  m115 = 115\n  m116 = 116\n  m117 = 117\n  m118 = 118\n  m119 = 119\n  m120 = 120\n  m121 = 121\n  m122 = 122\n  m123 = 123\n  m124 = 124\n  m125 = 125\n  m126 = 126\n  m127 = 127\n  m128 = 128\n  m129 = 129\n}\n\noutput \"pick\" {\n  value = local.m001\n}\n\noutput \"sum\" {\n  value = local.m002 + local.m1\n}\n"},
	},
	// half-typed and complete type declarations side by side
	"tf-typedecls": {
		Root: map[string]string{"main.tf": "variable \"t1\" {\n  type = tuple()\n}\n\nvariable \"t2\" {\n  type = tuple()\n}\n\nvariable \"o1\" {\n  type = object()\n}\n\nvariable \"l1\" {\n  type = list()\n}\n\nvariable \"m1\" {\n  type = map(tuple())\n}\n\nvariable \"ok\" {\n  type = object({ a = string, b = optional(number), c = tuple([string, bool]) })\n}\n"},
	},
	// object keys in unusual literal spellings (parenthesised, conditional with a
	// null result, escapes, keywords) in schema-known and unknown places; a keyword
	// constraint met by a longer traversal whose root name is the keyword; more static
	// blocks than the maximum next to a dynamic block of the same type
	"tf-oddkeys": {
		Root: map[string]string{"main.tf": "locals {\n  which = \"a\\\"b\"\n  picked = aws_instance.k[*].tags[local.which]\n  odd = {\n    (\"pk\") = 1\n    (true ? null : \"nk\") = 2\n    (false ? \"fk\" : null) = 3\n    \"e\\\"k\" = 4\n    true = 5\n    null = 6\n    plain = { (\"in\") = [1, { (true ? null : \"x\") = 2 }] }\n  }\n}\n\nresource \"aws_instance\" \"k\" {\n  ami           = \"a\"\n  instance_type = \"t\"\n  tags = {\n    (\"Name\") = \"n\"\n    (true ? null : \"Env\") = \"e\"\n    \"a\\\"b\" = \"q\"\n    (local.missing) = \"m\"\n    (nope()) = \"f\"\n    plain = \"p\"\n  }\n  cpu = {\n    (\"cores\") = 2\n    \"thr\\u0065ads\" = 4\n  }\n  lifecycle {\n    ignore_changes = all.items\n  }\n}\n\nresource \"aws_instance\" \"k2\" {\n  ami           = \"a\"\n  instance_type = \"t\"\n  lifecycle {\n    ignore_changes = all[0]\n  }\n  network_interface {\n    device_index = 0\n  }\n  network_interface {\n    device_index = 1\n  }\n  network_interface {\n    device_index = 2\n  }\n  dynamic \"network_interface\" {\n    for_each = []\n    content {\n      device_index = 3\n    }\n  }\n  cpu = {\n    cores = 1\n    threads = 2\n    (local.odd) = 3\n  }\n  routes = [{ cidr = \"a\", cidr = \"b\", gateway = \"g\" }]\n}\n\nresource \"aws_instance\" \"k3\" {\n  ami           = \"a\"\n  instance_type = \"t\"\n  ebs_block_device {\n    device_name = \"d\"\n    tag_spec {\n      key = \"a\"\n    }\n    tag_spec {\n      key = \"b\"\n    }\n  }\n  monitoring = length(self.ebs_block_device[0].tag_spec[0]) > 0\n  count_hint = length(self.ebs_block_device[0].tag_spec[1])\n  passphrase = 42 + 43\n  pair       = [local.which, 2]\n  token      = \"id-${10 + 2}\"\n  secret     = !true\n}\n\noutput \"neg\" {\n  value = element([1, 2], -local.which )\n}\n"},
	},
	"tf-child-only": {
		Root:  map[string]string{"main.tf": "module \"kid\" {\n  source = \"./child\"\n  name   = \"n\"\n}\n\noutput \"g\" {\n  value = module.kid.greeting\n}\n"},
		Child: map[string]string{"kid.tf": childMain},
	},
}
