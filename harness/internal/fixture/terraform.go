// Package fixture holds the hand-written workloads (W1): a Terraform-shaped
// schema using every schema feature at least once, together with valid
// configurations (ASCII and multi-byte, LF and CRLF, native and JSON syntax).
package fixture

import (
	"context"
	"fmt"
	"sort"

	"github.com/hashicorp/hcl-lang/decoder"
	"github.com/hashicorp/hcl-lang/lang"
	"github.com/hashicorp/hcl-lang/schema"
	"github.com/hashicorp/hcl/v2"
	"github.com/zclconf/go-cty/cty"
	"github.com/zclconf/go-cty/cty/function"

	"verifharness/internal/core"
)

func md(s string) lang.MarkupContent { return lang.Markdown(s) }

func labelKey(vals ...string) schema.SchemaKey {
	dk := schema.DependencyKeys{}
	for i, v := range vals {
		dk.Labels = append(dk.Labels, schema.LabelDependent{Index: i, Value: v})
	}
	return schema.NewSchemaKey(dk)
}

// Functions is the function table of the fixture.
func Functions() map[string]schema.FunctionSignature {
	fs := fixtureFunctions()
	// the fixed parameters of the variadic functions live in slices with spare capacity
	// (built with append by a client): a query that appends to them writes into what
	// the caller supplied
	for _, n := range []string{"join", "format"} {
		f := fs[n]
		f.Params = append(make([]function.Parameter, 0, len(f.Params)+3), f.Params...)
		fs[n] = f
	}
	return fs
}

func fixtureFunctions() map[string]schema.FunctionSignature {
	return map[string]schema.FunctionSignature{
		"upper":                    {Description: "upper converts to upper case", ReturnType: cty.String, Params: []function.Parameter{{Name: "str", Type: cty.String, Description: "input"}}},
		"lower":                    {Description: "lower converts to lower case", ReturnType: cty.String, Params: []function.Parameter{{Name: "str", Type: cty.String}}},
		"length":                   {Description: "length of a collection", ReturnType: cty.Number, Params: []function.Parameter{{Name: "value", Type: cty.DynamicPseudoType}}},
		"join":                     {Description: "join strings", ReturnType: cty.String, Params: []function.Parameter{{Name: "separator", Type: cty.String}}, VarParam: &function.Parameter{Name: "lists", Type: cty.List(cty.String)}},
		"format":                   {Description: "format a string", ReturnType: cty.String, Params: []function.Parameter{{Name: "format", Type: cty.String}}, VarParam: &function.Parameter{Name: "args", Type: cty.DynamicPseudoType}},
		"concat":                   {Description: "concat lists", ReturnType: cty.DynamicPseudoType, VarParam: &function.Parameter{Name: "seqs", Type: cty.DynamicPseudoType}},
		"timestamp":                {Description: "current time", ReturnType: cty.String},
		"tolist":                   {Description: "to list", ReturnType: cty.List(cty.DynamicPseudoType), Params: []function.Parameter{{Name: "v", Type: cty.DynamicPseudoType}}},
		"tomap":                    {Description: "to map", ReturnType: cty.Map(cty.DynamicPseudoType), Params: []function.Parameter{{Name: "v", Type: cty.DynamicPseudoType}}},
		"max":                      {Description: "max number", ReturnType: cty.Number, VarParam: &function.Parameter{Name: "numbers", Type: cty.Number}},
		"substr":                   {Description: "substring", ReturnType: cty.String, Params: []function.Parameter{{Name: "str", Type: cty.String}, {Name: "offset", Type: cty.Number}, {Name: "length", Type: cty.Number}}},
		"element":                  {Description: "element of list", ReturnType: cty.DynamicPseudoType, Params: []function.Parameter{{Name: "list", Type: cty.DynamicPseudoType}, {Name: "index", Type: cty.Number}}},
		"provider::aws::arn_parse": {Description: "namespaced fn", ReturnType: cty.String, Params: []function.Parameter{{Name: "arn", Type: cty.String}}},
		"tobool":                   {Description: "to bool", ReturnType: cty.Bool, Params: []function.Parameter{{Name: "v", Type: cty.DynamicPseudoType}}},
	}
}

// ChildFunctions are the functions of the child path: same names, partly other
// signatures (each path has its own function set).
func ChildFunctions() map[string]schema.FunctionSignature {
	fs := Functions()
	fs["upper"] = schema.FunctionSignature{Description: "child upper with a locale", ReturnType: cty.String, Params: []function.Parameter{{Name: "text", Type: cty.String, Description: "child input"}, {Name: "locale", Type: cty.String}}}
	fs["max"] = schema.FunctionSignature{Description: "child max of two", ReturnType: cty.Number, Params: []function.Parameter{{Name: "a", Type: cty.Number}, {Name: "b", Type: cty.Number}}}
	fs["timestamp"] = schema.FunctionSignature{Description: "child time in a zone", ReturnType: cty.String, Params: []function.Parameter{{Name: "zone", Type: cty.String}}}
	delete(fs, "substr")
	return fs
}

func lifecycleBlock() *schema.BlockSchema {
	return &schema.BlockSchema{
		Description: md("lifecycle-block-desc"),
		MaxItems:    1,
		Body: &schema.BodySchema{
			Description: md("lifecycle-body-desc"),
			Attributes: map[string]*schema.AttributeSchema{
				"create_before_destroy": {IsOptional: true, Constraint: schema.LiteralType{Type: cty.Bool}, Description: md("cbd-desc")},
				"prevent_destroy":       {IsOptional: true, Constraint: schema.AnyExpression{OfType: cty.Bool}, Description: md("pd-desc")},
				"ignore_changes": {IsOptional: true, Description: md("ic-desc"), Constraint: schema.OneOf{
					schema.Keyword{Keyword: "all", Description: md("kw-all-desc")},
					schema.Set{Elem: schema.Reference{OfScopeId: "resource"}},
				}},
			},
		},
	}
}

func awsInstanceBody() *schema.BodySchema {
	return &schema.BodySchema{
		Description: md("aws_instance-body-desc"),
		Detail:      "hashicorp/aws",
		HoverURL:    "https://example.com/aws_instance",
		DocsLink:    &schema.DocsLink{URL: "https://example.com/docs/aws_instance", Tooltip: "aws_instance docs"},
		Attributes: map[string]*schema.AttributeSchema{
			"ami":             {IsRequired: true, Constraint: schema.AnyExpression{OfType: cty.String}, Description: md("ami-desc")},
			"instance_type":   {IsRequired: true, Constraint: schema.AnyExpression{OfType: cty.String}, Description: md("instance_type-desc"), CompletionHooks: lang.CompletionHooks{{Name: "InstanceTypes"}}},
			"id":              {IsComputed: true, Constraint: schema.AnyExpression{OfType: cty.String}, Description: md("id-desc")},
			"arn":             {IsComputed: true, Constraint: schema.LiteralType{Type: cty.String}, Description: md("arn-desc")},
			"tags":            {IsOptional: true, Constraint: schema.AnyExpression{OfType: cty.Map(cty.String)}, Description: md("tags-desc")},
			"count_hint":      {IsOptional: true, IsDeprecated: true, Constraint: schema.AnyExpression{OfType: cty.Number}, Description: md("count_hint-desc")},
			"secret":          {IsOptional: true, IsSensitive: true, IsWriteOnly: true, Constraint: schema.AnyExpression{OfType: cty.String}, Description: md("secret-desc")},
			"token":           {IsOptional: true, IsSensitive: true, IsWriteOnly: true, Constraint: schema.AnyExpression{OfType: cty.String}, Description: md("token-desc")},
			"passphrase":      {IsOptional: true, IsWriteOnly: true, Constraint: schema.AnyExpression{OfType: cty.String}, Description: md("passphrase-desc")},
			"security_groups": {IsOptional: true, IsComputed: true, Constraint: schema.AnyExpression{OfType: cty.Set(cty.String)}, Description: md("sg-desc")},
			"monitoring":      {IsOptional: true, Constraint: schema.AnyExpression{OfType: cty.Bool}, Description: md("monitoring-desc")},
			"cpu": {IsOptional: true, Description: md("cpu-desc"), Constraint: schema.AnyExpression{OfType: cty.Object(map[string]cty.Type{
				"cores": cty.Number, "threads": cty.Number,
			})}},
			"pair":        {IsOptional: true, Description: md("pair-desc"), Constraint: schema.AnyExpression{OfType: cty.Tuple([]cty.Type{cty.String, cty.Number})}},
			"private_ips": {IsOptional: true, Description: md("private_ips-desc"), Constraint: schema.AnyExpression{OfType: cty.List(cty.String)}},
			"routes": {IsOptional: true, Description: md("routes-desc"), Constraint: schema.AnyExpression{OfType: cty.List(cty.Object(map[string]cty.Type{
				"cidr": cty.String, "gateway": cty.String,
			}))}},
		},
		Blocks: map[string]*schema.BlockSchema{
			"ebs_block_device": {
				Type:        schema.BlockTypeList,
				Description: md("ebs-desc"),
				Body: &schema.BodySchema{
					Description: md("ebs-body-desc"),
					// non-nil extensions without DynamicBlocks: the decoder has to set
					// the flag on its own copy of this nested dependent block
					Extensions: &schema.BodyExtensions{SelfRefs: true},
					Attributes: map[string]*schema.AttributeSchema{
						"device_name": {IsRequired: true, Constraint: schema.AnyExpression{OfType: cty.String}, Description: md("device_name-desc")},
						"volume_size": {IsOptional: true, Constraint: schema.AnyExpression{OfType: cty.Number}, Description: md("volume_size-desc")},
						"encrypted":   {IsOptional: true, Constraint: schema.AnyExpression{OfType: cty.Bool}, Description: md("encrypted-desc")},
					},
					// a list block inside a list block: instances addressed at depth 2
					Blocks: map[string]*schema.BlockSchema{
						"tag_spec": {
							Type:        schema.BlockTypeList,
							Description: md("tag_spec-desc"),
							Body: &schema.BodySchema{
								Attributes: map[string]*schema.AttributeSchema{
									"key": {IsRequired: true, Constraint: schema.AnyExpression{OfType: cty.String}, Description: md("tag_spec-key-desc")},
								},
							},
						},
					},
				},
			},
			"network_interface": {
				Type:        schema.BlockTypeSet,
				Description: md("ni-desc"),
				MaxItems:    2,
				Body: &schema.BodySchema{
					Attributes: map[string]*schema.AttributeSchema{
						"device_index": {IsRequired: true, Constraint: schema.AnyExpression{OfType: cty.Number}, Description: md("device_index-desc")},
						"network_id":   {IsOptional: true, Constraint: schema.AnyExpression{OfType: cty.String}, Description: md("network_id-desc")},
						"addresses":    {IsOptional: true, Constraint: schema.AnyExpression{OfType: cty.List(cty.String)}, Description: md("addresses-desc")},
						"labels":       {IsOptional: true, Constraint: schema.AnyExpression{OfType: cty.Map(cty.String)}, Description: md("ni-labels-desc")},
					},
					Blocks: map[string]*schema.BlockSchema{
						// second nesting level with extensions of its own: DynamicBlocks has
						// to reach it through two propagation steps
						"access_config": {
							Type:        schema.BlockTypeList,
							Description: md("access_config-desc"),
							Body: &schema.BodySchema{
								Extensions: &schema.BodyExtensions{SelfRefs: true},
								Attributes: map[string]*schema.AttributeSchema{
									"nat_ip": {IsOptional: true, Constraint: schema.AnyExpression{OfType: cty.String}, Description: md("nat_ip-desc")},
								},
								Blocks: map[string]*schema.BlockSchema{
									"rule": {
										Type:        schema.BlockTypeList,
										Description: md("rule-desc"),
										Body: &schema.BodySchema{
											Attributes: map[string]*schema.AttributeSchema{
												"port": {IsRequired: true, Constraint: schema.AnyExpression{OfType: cty.Number}, Description: md("rule-port-desc")},
											},
										},
									},
								},
							},
						},
					},
				},
			},
			"volume": {
				Type:                   schema.BlockTypeSet,
				Description:            md("volume-desc"),
				SemanticTokenModifiers: lang.SemanticTokenModifiers{"tf-volume"},
				Labels: []*schema.LabelSchema{
					{Name: "kind", Description: md("volume-kind-desc"), SemanticTokenModifiers: lang.SemanticTokenModifiers{"tf-kind"}},
					{Name: "name", Description: md("volume-name-desc"), SemanticTokenModifiers: lang.SemanticTokenModifiers{"tf-name"}},
				},
				Body: &schema.BodySchema{
					Attributes: map[string]*schema.AttributeSchema{
						"size": {IsOptional: true, Constraint: schema.AnyExpression{OfType: cty.Number}, Description: md("volume-size-desc")},
					},
				},
			},
			"timeouts": {
				Type:        schema.BlockTypeObject,
				Description: md("timeouts-desc"),
				MaxItems:    1,
				Body: &schema.BodySchema{
					Attributes: map[string]*schema.AttributeSchema{
						"create": {IsOptional: true, Constraint: schema.AnyExpression{OfType: cty.String}, Description: md("create-desc")},
						"delete": {IsOptional: true, Constraint: schema.AnyExpression{OfType: cty.String}, Description: md("delete-desc")},
					},
				},
			},
		},
	}
}

func awsBucketBody() *schema.BodySchema {
	return &schema.BodySchema{
		Description: md("aws_s3_bucket-body-desc"),
		Detail:      "hashicorp/aws",
		DocsLink:    &schema.DocsLink{URL: "https://example.com/docs/aws_s3_bucket", Tooltip: "aws_s3_bucket docs"},
		Attributes: map[string]*schema.AttributeSchema{
			"bucket": {IsOptional: true, IsComputed: true, Constraint: schema.AnyExpression{OfType: cty.String}, Description: md("bucket-desc")},
			"acl": {IsOptional: true, Description: md("acl-desc"), Constraint: schema.OneOf{
				schema.LiteralValue{Value: cty.StringVal("private"), Description: md("acl-private-desc")},
				schema.LiteralValue{Value: cty.StringVal("public-read"), Description: md("acl-public-desc")},
				schema.AnyExpression{OfType: cty.String},
			}},
			"id":            {IsComputed: true, Constraint: schema.AnyExpression{OfType: cty.String}, Description: md("bucket-id-desc")},
			"tags":          {IsOptional: true, Constraint: schema.AnyExpression{OfType: cty.Map(cty.String)}, Description: md("bucket-tags-desc")},
			"force_destroy": {IsOptional: true, Constraint: schema.AnyExpression{OfType: cty.Bool}, Description: md("force_destroy-desc")},
			"rules": {IsOptional: true, Description: md("rules-desc"), Constraint: schema.List{
				Description: md("rules-list-desc"),
				Elem: schema.Object{
					Name:        "rule",
					Description: md("rule-object-desc"),
					Attributes: schema.ObjectAttributes{
						"id":      {IsRequired: true, Constraint: schema.LiteralType{Type: cty.String}, Description: md("rule-id-desc")},
						"enabled": {IsOptional: true, Constraint: schema.LiteralType{Type: cty.Bool}, Description: md("rule-enabled-desc")},
						"days":    {IsOptional: true, Constraint: schema.AnyExpression{OfType: cty.Number}, Description: md("rule-days-desc")},
						"target":  {IsOptional: true, Constraint: schema.Reference{OfScopeId: "resource"}, Description: md("rule-target-desc")},
					},
				},
			}},
			"cors": {IsOptional: true, Description: md("cors-desc"), Constraint: schema.Map{
				Name: "map of origins", Description: md("cors-map-desc"),
				Elem: schema.List{Elem: schema.LiteralType{Type: cty.String}},
			}},
			"pair": {IsOptional: true, Description: md("pair-desc"), Constraint: schema.Tuple{
				Description: md("pair-tuple-desc"),
				Elems:       []schema.Constraint{schema.LiteralType{Type: cty.String}, schema.AnyExpression{OfType: cty.Number}},
			}},
		},
		Blocks: map[string]*schema.BlockSchema{
			"versioning": {
				Type:        schema.BlockTypeMap,
				Description: md("versioning-desc"),
				Labels:      []*schema.LabelSchema{{Name: "key", Description: md("versioning-key-desc")}},
				Body: &schema.BodySchema{
					Attributes: map[string]*schema.AttributeSchema{
						"enabled": {IsOptional: true, Constraint: schema.AnyExpression{OfType: cty.Bool}, Description: md("versioning-enabled-desc")},
					},
				},
			},
		},
	}
}

func resourceBlock() *schema.BlockSchema {
	return &schema.BlockSchema{
		Description:            md("resource-block-desc"),
		SemanticTokenModifiers: lang.SemanticTokenModifiers{"tf-resource", "tf-managed"},
		Labels: []*schema.LabelSchema{
			{Name: "type", Description: md("resource-type-label-desc"), IsDepKey: true, Completable: true, SemanticTokenModifiers: lang.SemanticTokenModifiers{"tf-type", lang.TokenModifierDependent}},
			{Name: "name", Description: md("resource-name-label-desc"), SemanticTokenModifiers: lang.SemanticTokenModifiers{"tf-name"}},
		},
		Address: &schema.BlockAddrSchema{
			Steps:                schema.Address{schema.LabelStep{Index: 0}, schema.LabelStep{Index: 1}},
			FriendlyName:         "resource",
			ScopeId:              "resource",
			AsReference:          true,
			DependentBodyAsData:  true,
			InferDependentBody:   true,
			DependentBodySelfRef: true,
		},
		Body: &schema.BodySchema{
			Description: md("resource-body-desc"),
			Extensions:  &schema.BodyExtensions{Count: true, ForEach: true, DynamicBlocks: true, SelfRefs: true},
			Attributes: map[string]*schema.AttributeSchema{
				"provider": {IsOptional: true, IsDepKey: true, Description: md("provider-attr-desc"), Constraint: schema.Reference{OfScopeId: "provider"}},
				"depends_on": {IsOptional: true, Description: md("depends_on-desc"), Constraint: schema.Set{
					Elem: schema.OneOf{schema.Reference{OfScopeId: "resource"}, schema.Reference{OfScopeId: "data"}, schema.Reference{OfScopeId: "module"}, schema.Reference{OfScopeId: "variable"}},
				}},
			},
			Blocks: map[string]*schema.BlockSchema{
				"lifecycle": lifecycleBlock(),
				"provisioner": {
					Description: md("provisioner-desc"),
					Labels:      []*schema.LabelSchema{{Name: "type", IsDepKey: true, Completable: true, Description: md("provisioner-type-desc")}},
					Body: &schema.BodySchema{
						Extensions: &schema.BodyExtensions{SelfRefs: true},
						Attributes: map[string]*schema.AttributeSchema{
							"when": {IsOptional: true, Description: md("when-desc"), Constraint: schema.OneOf{
								schema.Keyword{Keyword: "create", Description: md("kw-create-desc")},
								schema.Keyword{Keyword: "destroy", Description: md("kw-destroy-desc")},
							}},
						},
					},
					DependentBody: map[schema.SchemaKey]*schema.BodySchema{
						labelKey("local-exec"): {
							Description: md("local-exec-desc"),
							Extensions:  &schema.BodyExtensions{SelfRefs: true},
							Attributes: map[string]*schema.AttributeSchema{
								"command":     {IsRequired: true, Constraint: schema.AnyExpression{OfType: cty.String}, Description: md("command-desc")},
								"working_dir": {IsOptional: true, Constraint: schema.AnyExpression{OfType: cty.String}, Description: md("working_dir-desc")},
							},
						},
					},
				},
			},
		},
		DependentBody: map[schema.SchemaKey]*schema.BodySchema{
			labelKey("aws_instance"):  awsInstanceBody(),
			labelKey("aws_s3_bucket"): awsBucketBody(),
			schema.NewSchemaKey(schema.DependencyKeys{
				Labels: []schema.LabelDependent{{Index: 0, Value: "aws_instance"}},
				Attributes: []schema.AttributeDependent{{Name: "provider", Expr: schema.ExpressionValue{
					Address: lang.Address{lang.RootStep{Name: "aws"}, lang.AttrStep{Name: "west"}}}}},
			}): awsInstanceBody(),
			labelKey("null_resource"): {
				Description: md("null_resource-body-desc"),
				Attributes: map[string]*schema.AttributeSchema{
					"triggers": {IsOptional: true, Constraint: schema.AnyExpression{OfType: cty.Map(cty.String)}, Description: md("triggers-desc")},
					"id":       {IsComputed: true, Constraint: schema.AnyExpression{OfType: cty.String}, Description: md("null-id-desc")},
				},
			},
		},
	}
}

func dataBlock() *schema.BlockSchema {
	s3cfg := &schema.BodySchema{
		Description: md("remote-state-s3-body-desc"),
		DocsLink:    &schema.DocsLink{URL: "https://example.com/docs/backend-s3"},
		Attributes: map[string]*schema.AttributeSchema{
			"backend":   {IsRequired: true, IsDepKey: true, Constraint: schema.LiteralType{Type: cty.String}, Description: md("backend-attr-desc"), SemanticTokenModifiers: lang.SemanticTokenModifiers{lang.TokenModifierDependent}},
			"workspace": {IsOptional: true, Constraint: schema.AnyExpression{OfType: cty.String}, Description: md("workspace-desc")},
			"outputs":   {IsComputed: true, Constraint: schema.AnyExpression{OfType: cty.DynamicPseudoType}, Description: md("outputs-desc")},
			"config": {IsOptional: true, Description: md("config-s3-desc"), Constraint: schema.Object{
				Name: "s3 backend config",
				Attributes: schema.ObjectAttributes{
					"bucket": {IsRequired: true, Constraint: schema.LiteralType{Type: cty.String}, Description: md("s3-bucket-desc")},
					"key":    {IsRequired: true, Constraint: schema.LiteralType{Type: cty.String}, Description: md("s3-key-desc")},
					"region": {IsOptional: true, Constraint: schema.LiteralType{Type: cty.String}, Description: md("s3-region-desc")},
				},
			}},
		},
	}
	return &schema.BlockSchema{
		Description:            md("data-block-desc"),
		SemanticTokenModifiers: lang.SemanticTokenModifiers{"tf-data"},
		Labels: []*schema.LabelSchema{
			{Name: "type", Description: md("data-type-label-desc"), IsDepKey: true, Completable: true, SemanticTokenModifiers: lang.SemanticTokenModifiers{"tf-type", lang.TokenModifierDependent}},
			{Name: "name", Description: md("data-name-label-desc")},
		},
		Address: &schema.BlockAddrSchema{
			Steps:               schema.Address{schema.StaticStep{Name: "data"}, schema.LabelStep{Index: 0}, schema.LabelStep{Index: 1}},
			FriendlyName:        "datasource",
			ScopeId:             "data",
			AsReference:         true,
			DependentBodyAsData: true,
			InferDependentBody:  true,
		},
		Body: &schema.BodySchema{
			Description: md("data-body-desc"),
			Extensions:  &schema.BodyExtensions{Count: true, ForEach: true},
			Attributes: map[string]*schema.AttributeSchema{
				"provider": {IsOptional: true, Description: md("data-provider-desc"), Constraint: schema.Reference{OfScopeId: "provider"}},
			},
		},
		DependentBody: map[schema.SchemaKey]*schema.BodySchema{
			labelKey("aws_ami"): {
				Description: md("aws_ami-body-desc"),
				DocsLink:    &schema.DocsLink{URL: "https://example.com/docs/aws_ami"},
				Attributes: map[string]*schema.AttributeSchema{
					"most_recent": {IsOptional: true, Constraint: schema.AnyExpression{OfType: cty.Bool}, Description: md("most_recent-desc")},
					"owners":      {IsOptional: true, Constraint: schema.AnyExpression{OfType: cty.List(cty.String)}, Description: md("owners-desc")},
					"id":          {IsComputed: true, Constraint: schema.AnyExpression{OfType: cty.String}, Description: md("ami-id-desc")},
				},
				Blocks: map[string]*schema.BlockSchema{
					"filter": {
						Type:        schema.BlockTypeSet,
						Description: md("filter-desc"),
						Body: &schema.BodySchema{
							Attributes: map[string]*schema.AttributeSchema{
								"name":   {IsRequired: true, Constraint: schema.AnyExpression{OfType: cty.String}, Description: md("filter-name-desc")},
								"values": {IsRequired: true, Constraint: schema.AnyExpression{OfType: cty.List(cty.String)}, Description: md("filter-values-desc")},
							},
						},
					},
					"exclude": {
						Type:        schema.BlockTypeSet,
						Description: md("exclude-desc"),
						Body: &schema.BodySchema{
							Attributes: map[string]*schema.AttributeSchema{
								"name": {IsRequired: true, Constraint: schema.AnyExpression{OfType: cty.String}, Description: md("exclude-name-desc")},
							},
						},
					},
					"lookup": {
						Type:        schema.BlockTypeObject,
						Description: md("lookup-desc"),
						MaxItems:    1,
						Body: &schema.BodySchema{
							Attributes: map[string]*schema.AttributeSchema{
								"region": {IsOptional: true, Constraint: schema.AnyExpression{OfType: cty.String}, Description: md("lookup-region-desc")},
							},
						},
					},
					"retry": {
						Type:        schema.BlockTypeObject,
						Description: md("retry-desc"),
						MaxItems:    1,
						Body: &schema.BodySchema{
							Attributes: map[string]*schema.AttributeSchema{
								"attempts": {IsOptional: true, Constraint: schema.AnyExpression{OfType: cty.Number}, Description: md("retry-attempts-desc")},
							},
						},
					},
				},
			},
			// first level: label only -> body that itself has a dep-key attribute
			labelKey("terraform_remote_state"): {
				Description: md("remote-state-body-desc"),
				Attributes: map[string]*schema.AttributeSchema{
					"backend":   {IsRequired: true, IsDepKey: true, Constraint: schema.LiteralType{Type: cty.String}, Description: md("backend-attr-desc"), SemanticTokenModifiers: lang.SemanticTokenModifiers{lang.TokenModifierDependent}},
					"workspace": {IsOptional: true, Constraint: schema.AnyExpression{OfType: cty.String}, Description: md("workspace-desc")},
					"outputs":   {IsComputed: true, Constraint: schema.AnyExpression{OfType: cty.DynamicPseudoType}, Description: md("outputs-desc")},
					"config":    {IsOptional: true, Constraint: schema.AnyExpression{OfType: cty.DynamicPseudoType}, Description: md("config-generic-desc")},
				},
			},
			// second level: label + attribute
			schema.NewSchemaKey(schema.DependencyKeys{
				Labels:     []schema.LabelDependent{{Index: 0, Value: "terraform_remote_state"}},
				Attributes: []schema.AttributeDependent{{Name: "backend", Expr: schema.ExpressionValue{Static: cty.StringVal("s3")}}},
			}): s3cfg,
		},
	}
}

// ChildPath is the path of the child module of the fixture workspace.
const ChildPath = "/ws/child"
const RootPath = "/ws/root"

func moduleBlock() *schema.BlockSchema {
	childKey := schema.NewSchemaKey(schema.DependencyKeys{
		Attributes: []schema.AttributeDependent{{Name: "source", Expr: schema.ExpressionValue{Static: cty.StringVal("./child")}}},
	})
	childLP := lang.Path{Path: ChildPath, LanguageID: "terraform"}
	return &schema.BlockSchema{
		Description: md("module-block-desc"),
		Labels:      []*schema.LabelSchema{{Name: "name", Description: md("module-name-label-desc")}},
		Address: &schema.BlockAddrSchema{
			Steps:        schema.Address{schema.StaticStep{Name: "module"}, schema.LabelStep{Index: 0}},
			FriendlyName: "module",
			ScopeId:      "module",
			AsReference:  true,
		},
		Body: &schema.BodySchema{
			Description: md("module-body-desc"),
			Extensions:  &schema.BodyExtensions{Count: true, ForEach: true},
			Attributes: map[string]*schema.AttributeSchema{
				"source":  {IsRequired: true, IsDepKey: true, Constraint: schema.LiteralType{Type: cty.String}, Description: md("source-desc"), CompletionHooks: lang.CompletionHooks{{Name: "ModuleSources"}}, SemanticTokenModifiers: lang.SemanticTokenModifiers{lang.TokenModifierDependent}},
				"version": {IsOptional: true, Constraint: schema.LiteralType{Type: cty.String}, Description: md("version-desc")},
				"providers": {IsOptional: true, Description: md("providers-desc"), Constraint: schema.Map{
					Name: "map of provider references",
					Elem: schema.Reference{OfScopeId: "provider"},
				}},
			},
		},
		DependentBody: map[schema.SchemaKey]*schema.BodySchema{
			childKey: {
				Description: md("child-module-body-desc"),
				DocsLink:    &schema.DocsLink{URL: "https://example.com/docs/child-module"},
				Attributes: map[string]*schema.AttributeSchema{
					"name": {IsRequired: true, Description: md("child-name-input-desc"), Constraint: schema.AnyExpression{OfType: cty.String},
						OriginForTarget: &schema.PathTarget{
							Address:     schema.Address{schema.StaticStep{Name: "var"}, schema.AttrNameStep{}},
							Path:        childLP,
							Constraints: schema.Constraints{ScopeId: "variable", Type: cty.String},
						}},
					// object keys as path origins (the form variable definition files take)
					"inputs": {IsOptional: true, Description: md("child-inputs-desc"), Constraint: schema.Object{
						Name: "module inputs",
						Attributes: schema.ObjectAttributes{
							"name": {IsOptional: true, Constraint: schema.AnyExpression{OfType: cty.String}, Description: md("inputs-name-desc"),
								OriginForTarget: &schema.PathTarget{
									Address:     schema.Address{schema.StaticStep{Name: "var"}, schema.AttrNameStep{}},
									Path:        childLP,
									Constraints: schema.Constraints{ScopeId: "variable", Type: cty.String},
								}},
							"size": {IsOptional: true, Constraint: schema.AnyExpression{OfType: cty.Number}, Description: md("inputs-size-desc"),
								OriginForTarget: &schema.PathTarget{
									Address:     schema.Address{schema.StaticStep{Name: "var"}, schema.AttrNameStep{}},
									Path:        childLP,
									Constraints: schema.Constraints{ScopeId: "variable", Type: cty.Number},
								}},
						},
					}},
					"region": {IsOptional: true, Description: md("child-region-input-desc"), Constraint: schema.AnyExpression{OfType: cty.String},
						OriginForTarget: &schema.PathTarget{
							Address:     schema.Address{schema.StaticStep{Name: "exports"}, schema.AttrNameStep{}},
							Path:        childLP,
							Constraints: schema.Constraints{ScopeId: "export", Type: cty.String},
						}},
					"size": {IsOptional: true, Description: md("child-size-input-desc"), Constraint: schema.AnyExpression{OfType: cty.Number},
						OriginForTarget: &schema.PathTarget{
							Address:     schema.Address{schema.StaticStep{Name: "var"}, schema.AttrNameStep{}},
							Path:        childLP,
							Constraints: schema.Constraints{ScopeId: "variable", Type: cty.Number},
						}},
				},
				TargetableAs: schema.Targetables{
					{
						Address: lang.Address{lang.RootStep{Name: "module"}, lang.AttrStep{Name: "kid"}},
						ScopeId: "module", AsType: cty.Object(map[string]cty.Type{"greeting": cty.String, "total": cty.Number}),
						FriendlyName: "module outputs", Description: md("module-kid-targetable-desc"),
					},
					{
						Address: lang.Address{lang.RootStep{Name: "module"}, lang.AttrStep{Name: "kid"}, lang.AttrStep{Name: "greeting"}},
						ScopeId: "module", AsType: cty.String, Description: md("module-kid-greeting-desc"),
					},
					{
						Address: lang.Address{lang.RootStep{Name: "module"}, lang.AttrStep{Name: "kid"}, lang.AttrStep{Name: "total"}},
						ScopeId: "module", AsType: cty.Number, Description: md("module-kid-total-desc"),
					},
				},
				Targets: &schema.Target{Path: childLP, Range: hcl.Range{Filename: "kid.tf", Start: hcl.InitialPos, End: hcl.InitialPos}},
				ImpliedOrigins: schema.ImpliedOrigins{
					{
						OriginAddress: lang.Address{lang.RootStep{Name: "module"}, lang.AttrStep{Name: "kid"}, lang.AttrStep{Name: "greeting"}},
						TargetAddress: lang.Address{lang.RootStep{Name: "output"}, lang.AttrStep{Name: "greeting"}},
						Path:          childLP,
						Constraints:   schema.Constraints{ScopeId: "output"},
					},
					{
						OriginAddress: lang.Address{lang.RootStep{Name: "module"}, lang.AttrStep{Name: "kid"}, lang.AttrStep{Name: "total"}},
						TargetAddress: lang.Address{lang.RootStep{Name: "output"}, lang.AttrStep{Name: "total"}},
						Path:          childLP,
						Constraints:   schema.Constraints{ScopeId: "output"},
					},
				},
			},
		},
	}
}

// Terraform returns a fresh copy of the Terraform-shaped root schema.
func Terraform() *schema.BodySchema {
	return &schema.BodySchema{
		Description: md("root-body-desc"),
		Blocks: map[string]*schema.BlockSchema{
			"terraform": {
				Description: md("terraform-block-desc"),
				MaxItems:    1,
				Body: &schema.BodySchema{
					Description: md("terraform-body-desc"),
					Attributes: map[string]*schema.AttributeSchema{
						"required_version": {IsOptional: true, Constraint: schema.LiteralType{Type: cty.String}, Description: md("required_version-desc")},
						"experiments": {IsOptional: true, Description: md("experiments-desc"), Constraint: schema.Set{Elem: schema.OneOf{
							schema.Keyword{Keyword: "module_variable_optional_attrs", Name: "feature", Description: md("kw-mvoa-desc")},
							schema.Keyword{Keyword: "provider_sensitive_attrs", Name: "feature", Description: md("kw-psa-desc")},
						}}},
					},
					Blocks: map[string]*schema.BlockSchema{
						"required_providers": {
							Description: md("required_providers-desc"),
							MaxItems:    1,
							Body: &schema.BodySchema{
								AnyAttribute: &schema.AttributeSchema{
									IsOptional:  true,
									Description: md("required-provider-entry-desc"),
									Constraint: schema.OneOf{
										schema.Object{Attributes: schema.ObjectAttributes{
											"source":  {IsOptional: true, Constraint: schema.LiteralType{Type: cty.String}, Description: md("rp-source-desc")},
											"version": {IsOptional: true, Constraint: schema.LiteralType{Type: cty.String}, Description: md("rp-version-desc")},
										}},
										schema.LiteralType{Type: cty.String},
									},
									Address: &schema.AttributeAddrSchema{Steps: schema.Address{schema.AttrNameStep{}}, FriendlyName: "provider", AsReference: true, ScopeId: "provider"},
								},
							},
						},
						"backend": {
							Description: md("backend-block-desc"),
							MaxItems:    1,
							Labels:      []*schema.LabelSchema{{Name: "type", IsDepKey: true, Completable: true, Description: md("backend-type-desc")}},
							Body:        &schema.BodySchema{Description: md("backend-body-desc")},
							DependentBody: map[schema.SchemaKey]*schema.BodySchema{
								labelKey("s3"): {
									Description: md("backend-s3-desc"),
									DocsLink:    &schema.DocsLink{URL: "https://example.com/docs/backend/s3"},
									Attributes: map[string]*schema.AttributeSchema{
										"bucket": {IsRequired: true, Constraint: schema.LiteralType{Type: cty.String}, Description: md("be-bucket-desc")},
										"key":    {IsRequired: true, Constraint: schema.LiteralType{Type: cty.String}, Description: md("be-key-desc")},
										"region": {IsOptional: true, Constraint: schema.LiteralType{Type: cty.String}, Description: md("be-region-desc")},
									},
								},
								labelKey("local"): {
									Description: md("backend-local-desc"),
									Attributes: map[string]*schema.AttributeSchema{
										"path": {IsOptional: true, Constraint: schema.LiteralType{Type: cty.String}, Description: md("be-path-desc")},
									},
								},
							},
						},
					},
				},
			},
			"variable": {
				Description:            md("variable-block-desc"),
				Labels:                 []*schema.LabelSchema{{Name: "name", Description: md("variable-name-label-desc"), SemanticTokenModifiers: lang.SemanticTokenModifiers{"tf-name"}}},
				SemanticTokenModifiers: lang.SemanticTokenModifiers{"tf-variable"},
				Address: &schema.BlockAddrSchema{
					Steps:        schema.Address{schema.StaticStep{Name: "var"}, schema.LabelStep{Index: 0}},
					FriendlyName: "variable",
					ScopeId:      "variable",
					AsReference:  true,
					AsTypeOf:     &schema.BlockAsTypeOf{AttributeExpr: "type"},
				},
				Body: &schema.BodySchema{
					Description: md("variable-body-desc"),
					Attributes: map[string]*schema.AttributeSchema{
						"description": {IsOptional: true, Constraint: schema.LiteralType{Type: cty.String}, Description: md("var-description-desc")},
						"type":        {IsOptional: true, Constraint: schema.TypeDeclaration{}, Description: md("var-type-desc")},
						"default":     {IsOptional: true, Constraint: schema.LiteralType{Type: cty.DynamicPseudoType}, Description: md("var-default-desc")},
						"sensitive":   {IsOptional: true, Constraint: schema.LiteralType{Type: cty.Bool}, Description: md("var-sensitive-desc")},
						"nullable":    {IsOptional: true, Constraint: schema.LiteralValue{Value: cty.True, Description: md("nullable-true-desc")}, Description: md("var-nullable-desc")},
					},
					Blocks: map[string]*schema.BlockSchema{
						"validation": {
							Description: md("validation-desc"),
							Body: &schema.BodySchema{
								Attributes: map[string]*schema.AttributeSchema{
									"condition":     {IsRequired: true, Constraint: schema.AnyExpression{OfType: cty.Bool}, Description: md("condition-desc")},
									"error_message": {IsRequired: true, Constraint: schema.AnyExpression{OfType: cty.String}, Description: md("error_message-desc")},
								},
							},
						},
					},
				},
			},
			"locals": {
				Description: md("locals-block-desc"),
				Body: &schema.BodySchema{
					Description: md("locals-body-desc"),
					AnyAttribute: &schema.AttributeSchema{
						IsOptional:  true,
						Description: md("local-value-desc"),
						Constraint:  schema.AnyExpression{OfType: cty.DynamicPseudoType},
						Address: &schema.AttributeAddrSchema{
							Steps:        schema.Address{schema.StaticStep{Name: "local"}, schema.AttrNameStep{}},
							FriendlyName: "local value", ScopeId: "local", AsExprType: true, AsReference: true,
						},
					},
				},
			},
			"output": {
				Description: md("output-block-desc"),
				Labels:      []*schema.LabelSchema{{Name: "name", Description: md("output-name-label-desc")}},
				Address: &schema.BlockAddrSchema{
					Steps:        schema.Address{schema.StaticStep{Name: "output"}, schema.LabelStep{Index: 0}},
					FriendlyName: "output", ScopeId: "output", AsReference: true,
				},
				Body: &schema.BodySchema{
					Description: md("output-body-desc"),
					Attributes: map[string]*schema.AttributeSchema{
						"value":       {IsRequired: true, Constraint: schema.AnyExpression{OfType: cty.DynamicPseudoType}, Description: md("output-value-desc")},
						"description": {IsOptional: true, Constraint: schema.LiteralType{Type: cty.String}, Description: md("output-description-desc")},
						"sensitive":   {IsOptional: true, Constraint: schema.LiteralType{Type: cty.Bool}, Description: md("output-sensitive-desc")},
						"depends_on":  {IsOptional: true, Description: md("output-depends_on-desc"), Constraint: schema.Set{Elem: schema.OneOf{schema.Reference{OfScopeId: "resource"}, schema.Reference{OfScopeId: "data"}}}},
					},
				},
			},
			"provider": {
				Description: md("provider-block-desc"),
				Labels:      []*schema.LabelSchema{{Name: "name", IsDepKey: true, Completable: true, Description: md("provider-name-label-desc"), SemanticTokenModifiers: lang.SemanticTokenModifiers{lang.TokenModifierDependent}}},
				Address: &schema.BlockAddrSchema{
					Steps:        schema.Address{schema.LabelStep{Index: 0}, schema.AttrValueStep{Name: "alias", IsOptional: true}},
					FriendlyName: "provider", ScopeId: "provider", AsReference: true,
				},
				Body: &schema.BodySchema{
					Description: md("provider-body-desc"),
					Attributes: map[string]*schema.AttributeSchema{
						"alias":   {IsOptional: true, Constraint: schema.LiteralType{Type: cty.String}, Description: md("alias-desc")},
						"version": {IsOptional: true, IsDeprecated: true, Constraint: schema.LiteralType{Type: cty.String}, Description: md("provider-version-desc")},
					},
				},
				DependentBody: map[schema.SchemaKey]*schema.BodySchema{
					labelKey("aws"): {
						Description: md("provider-aws-body-desc"),
						DocsLink:    &schema.DocsLink{URL: "https://example.com/docs/provider-aws", Tooltip: "aws provider"},
						HoverURL:    "https://example.com/hover/provider-aws",
						Attributes: map[string]*schema.AttributeSchema{
							"region":     {IsOptional: true, Constraint: schema.AnyExpression{OfType: cty.String}, Description: md("region-desc")},
							"access_key": {IsOptional: true, IsSensitive: true, Constraint: schema.AnyExpression{OfType: cty.String}, Description: md("access_key-desc")},
							"max_retries": {IsOptional: true, Constraint: schema.AnyExpression{OfType: cty.Number}, Description: md("max_retries-desc"),
								DefaultValue: schema.DefaultValue{Value: cty.NumberIntVal(25)}},
						},
						Blocks: map[string]*schema.BlockSchema{
							"assume_role": {
								Description: md("assume_role-desc"),
								MaxItems:    1,
								Body: &schema.BodySchema{Attributes: map[string]*schema.AttributeSchema{
									"role_arn": {IsRequired: true, Constraint: schema.AnyExpression{OfType: cty.String}, Description: md("role_arn-desc")},
								}},
							},
						},
					},
				},
			},
			"resource": resourceBlock(),
			"data":     dataBlock(),
			"module":   moduleBlock(),
			"moved": {
				Description:  md("moved-block-desc"),
				IsDeprecated: true,
				Body: &schema.BodySchema{Attributes: map[string]*schema.AttributeSchema{
					"from": {IsRequired: true, Constraint: schema.Reference{OfScopeId: "resource"}, Description: md("from-desc")},
					"to":   {IsRequired: true, Constraint: schema.Reference{OfScopeId: "resource"}, Description: md("to-desc")},
				}},
			},
			"check": {
				Description: md("check-block-desc"),
				Labels:      []*schema.LabelSchema{{Name: "name", Description: md("check-name-desc")}},
				MinItems:    0,
				Body: &schema.BodySchema{
					Blocks: map[string]*schema.BlockSchema{
						"assert": {
							Description: md("assert-desc"),
							MinItems:    1,
							Body: &schema.BodySchema{Attributes: map[string]*schema.AttributeSchema{
								"condition":     {IsRequired: true, Constraint: schema.AnyExpression{OfType: cty.Bool}, Description: md("assert-condition-desc")},
								"error_message": {IsRequired: true, Constraint: schema.AnyExpression{OfType: cty.String}, Description: md("assert-error_message-desc")},
							}},
						},
					},
				},
			},
		},
	}
}

// ChildSchema is the schema of the child module path: variables and outputs.
func ChildSchema() *schema.BodySchema {
	s := Terraform()
	// a block that is targetable as a whole with nested targetables: parent and nested
	// declarations share the block's ranges, and the root module's "region" input is a
	// path origin for the NESTED one (exports.region)
	s.Blocks["exports"] = &schema.BlockSchema{
		Description: md("exports-block-desc"),
		MaxItems:    1,
		Body: &schema.BodySchema{
			Description: md("exports-body-desc"),
			Attributes: map[string]*schema.AttributeSchema{
				"note": {IsOptional: true, Constraint: schema.LiteralType{Type: cty.String}, Description: md("exports-note-desc")},
			},
			TargetableAs: schema.Targetables{
				{
					Address: lang.Address{lang.RootStep{Name: "exports"}}, ScopeId: "export",
					AsType:       cty.Object(map[string]cty.Type{"region": cty.String, "zone": cty.String}),
					FriendlyName: "exports", Description: md("exports-targetable-desc"),
					NestedTargetables: schema.Targetables{
						{Address: lang.Address{lang.RootStep{Name: "exports"}, lang.AttrStep{Name: "region"}}, ScopeId: "export", AsType: cty.String, Description: md("exports-region-desc")},
						{Address: lang.Address{lang.RootStep{Name: "exports"}, lang.AttrStep{Name: "zone"}}, ScopeId: "export", AsType: cty.String, Description: md("exports-zone-desc")},
					},
				},
			},
		},
	}
	return s
}

// DecoderContext builds the decoder context with completion hooks.
func DecoderContext() decoder.DecoderContext {
	ctx := decoder.NewDecoderContext()
	ctx.UtmSource = "verif"
	ctx.UtmMedium = "harness"
	ctx.UseUtmContent = true
	ctx.CompletionHooks["InstanceTypes"] = func(ctx context.Context, value cty.Value) ([]decoder.Candidate, error) {
		var out []decoder.Candidate
		for _, t := range []string{"t2.micro", "t2.small", "t3.large"} {
			out = append(out, decoder.ExpressionCompletionCandidate(decoder.ExpressionCandidate{Value: cty.StringVal(t), Detail: "instance type"}))
		}
		return out, nil
	}
	ctx.CompletionHooks["ModuleSources"] = func(ctx context.Context, value cty.Value) ([]decoder.Candidate, error) {
		return []decoder.Candidate{
			decoder.ExpressionCompletionCandidate(decoder.ExpressionCandidate{Value: cty.StringVal("./child"), Detail: "local module"}),
			decoder.ExpressionCompletionCandidate(decoder.ExpressionCandidate{Value: cty.StringVal("registry/mod/aws"), Detail: "registry module"}),
		}, nil
	}
	ctx.CodeLenses = []lang.CodeLensFunc{
		func(ctx context.Context, path lang.Path, file string) ([]lang.CodeLens, error) {
			return []lang.CodeLens{{Range: hcl.Range{Filename: file, Start: hcl.InitialPos, End: hcl.InitialPos}, Command: lang.Command{Title: "lens", ID: "x"}}}, nil
		},
	}
	return ctx
}

// Workspace names the fixture workspaces.
func Names() []string {
	n := make([]string, 0, len(configs))
	for k := range configs {
		n = append(n, k)
	}
	sort.Strings(n)
	return n
}

// Make builds a fresh workspace for a named fixture configuration.
func Make(name string) (*core.Workspace, error) {
	c, ok := configs[name]
	if !ok {
		return nil, fmt.Errorf("unknown fixture %q", name)
	}
	ws := &core.Workspace{Paths: map[string]*core.PathSpec{}, Ctx: DecoderContext()}
	root := &core.PathSpec{Schema: Terraform(), Files: map[string]string{}, Functions: Functions()}
	for f, src := range c.Root {
		root.Files[f] = src
	}
	ws.Paths[RootPath] = root
	ws.Order = []string{RootPath}
	if c.Twin {
		twin := &core.PathSpec{Schema: Terraform(), Files: map[string]string{}, Functions: Functions()}
		for f, src := range c.Root {
			twin.Files[f] = src
		}
		ws.Paths[TwinPath] = twin
		ws.Order = append(ws.Order, TwinPath)
	}
	if c.Child != nil {
		child := &core.PathSpec{Schema: ChildSchema(), Files: map[string]string{}, Functions: ChildFunctions()}
		for f, src := range c.Child {
			child.Files[f] = src
		}
		ws.Paths[ChildPath] = child
		ws.Order = append(ws.Order, ChildPath)
		if c.FailChild {
			ws.FailPaths = map[string]bool{ChildPath: true}
		}
	}
	return ws, nil
}

type config struct {
	Root  map[string]string
	Child map[string]string
	Twin  bool // a second root path with the same files
	// FailChild: the child path exists for the schema (module source) but its
	// PathContext cannot be read (module not loaded) - W8 fault
	FailChild bool
}

// TwinPath is the second root of the "twins" fixtures.
const TwinPath = "/ws/root2"
