// Package dump is the canonical dumper (O3) and deep snapshot (O4) of DESIGN.md:
// a reflection based, cycle safe, map-order free rendering of arbitrary Go
// values including unexported fields. Two values are "equal" for the
// differential monitors iff their dumps are equal.
package dump

import (
	"fmt"
	"hash/fnv"
	"io"
	"reflect"
	"sort"
	"strings"
	"unsafe"

	"github.com/hashicorp/hcl/v2"
	"github.com/zclconf/go-cty/cty"
)

var (
	ctyTypeT  = reflect.TypeOf(cty.Type{})
	ctyValueT = reflect.TypeOf(cty.Value{})
	hclPosT   = reflect.TypeOf(hcl.Pos{})
	hclRangeT = reflect.TypeOf(hcl.Range{})
	errorT    = reflect.TypeOf((*error)(nil)).Elem()
)

// Options control the rendering.
type Options struct {
	// CapScan includes the region between len and cap of every slice (C04:
	// an append into caller-owned spare capacity must be visible).
	CapScan bool
	// PosMap rewrites every hcl.Pos outside of a range before it is rendered (C18).
	PosMap func(hcl.Pos) hcl.Pos
	// RangeMap rewrites every hcl.Range (file aware) before it is rendered (C18).
	RangeMap func(hcl.Range) hcl.Range
	// FuncIdentity renders funcs by code pointer (same process comparisons);
	// otherwise only nil / non-nil.
	FuncIdentity bool
	// NilEmptyEqual renders nil and empty slices / maps identically (C17).
	NilEmptyEqual bool
	// SkipField, when non-nil, is asked for every struct field; true skips it.
	SkipField func(structType reflect.Type, field string) bool
	// Indent produces a multi-line rendering (for witnesses / diffs).
	Indent bool
}

type dumper struct {
	w     io.Writer
	o     Options
	stack map[uintptr]bool
	depth int
}

// Hash returns a 64-bit hash of the canonical rendering.
func Hash(v interface{}, o Options) uint64 {
	h := fnv.New64a()
	o.Indent = false
	d := &dumper{w: h, o: o, stack: map[uintptr]bool{}}
	d.dump(reflect.ValueOf(v))
	return h.Sum64()
}

// String returns the canonical rendering.
func String(v interface{}, o Options) string {
	var sb strings.Builder
	d := &dumper{w: &sb, o: o, stack: map[uintptr]bool{}}
	d.dump(reflect.ValueOf(v))
	return sb.String()
}

// S is String with default options.
func S(v interface{}) string { return String(v, Options{}) }

func (d *dumper) p(format string, a ...interface{}) { fmt.Fprintf(d.w, format, a...) }

func (d *dumper) nl() {
	if d.o.Indent {
		io.WriteString(d.w, "\n")
		for i := 0; i < d.depth; i++ {
			io.WriteString(d.w, "  ")
		}
	}
}

// access makes an unexported (but addressable) value interface-able.
func access(v reflect.Value) reflect.Value {
	if v.CanInterface() {
		return v
	}
	if v.CanAddr() {
		return reflect.NewAt(v.Type(), unsafe.Pointer(v.UnsafeAddr())).Elem()
	}
	return v
}

func (d *dumper) dump(v reflect.Value) {
	if !v.IsValid() {
		d.p("<nil>")
		return
	}
	t := v.Type()
	switch t {
	case ctyTypeT:
		if a := access(v); a.CanInterface() {
			ty := a.Interface().(cty.Type)
			if ty == cty.NilType {
				d.p("cty.NilType")
			} else {
				d.p("cty.Type(%#v)", ty)
			}
			return
		}
	case ctyValueT:
		if a := access(v); a.CanInterface() {
			val := a.Interface().(cty.Value)
			if val == cty.NilVal {
				d.p("cty.NilVal")
			} else {
				d.p("cty.Value(%s)", safeGoString(val))
			}
			return
		}
	case hclRangeT:
		if d.o.RangeMap != nil {
			r := hcl.Range{Filename: v.Field(0).String(), Start: posOf(v.Field(1)), End: posOf(v.Field(2))}
			r = d.o.RangeMap(r)
			d.p("Range(%q,%d,%d,%d-%d,%d,%d)", r.Filename, r.Start.Line, r.Start.Column, r.Start.Byte, r.End.Line, r.End.Column, r.End.Byte)
			return
		}
	case hclPosT:
		if d.o.PosMap != nil {
			p := d.o.PosMap(posOf(v))
			d.p("Pos(%d,%d,%d)", p.Line, p.Column, p.Byte)
			return
		}
		if a := access(v); a.CanInterface() {
			p := a.Interface().(hcl.Pos)
			if d.o.PosMap != nil {
				p = d.o.PosMap(p)
			}
			d.p("Pos(%d,%d,%d)", p.Line, p.Column, p.Byte)
			return
		}
	}
	switch v.Kind() {
	case reflect.Bool:
		d.p("%t", v.Bool())
	case reflect.Int, reflect.Int8, reflect.Int16, reflect.Int32, reflect.Int64:
		d.p("%d", v.Int())
	case reflect.Uint, reflect.Uint8, reflect.Uint16, reflect.Uint32, reflect.Uint64, reflect.Uintptr:
		d.p("%d", v.Uint())
	case reflect.Float32, reflect.Float64:
		d.p("%g", v.Float())
	case reflect.Complex64, reflect.Complex128:
		d.p("%g", v.Complex())
	case reflect.String:
		d.p("%q", v.String())
	case reflect.Func:
		if v.IsNil() {
			d.p("func(nil)")
		} else if d.o.FuncIdentity {
			d.p("func(%#x)", v.Pointer())
		} else {
			d.p("func(set)")
		}
	case reflect.Chan, reflect.UnsafePointer:
		d.p("%s(%#x)", v.Kind(), v.Pointer())
	case reflect.Interface:
		if v.IsNil() {
			d.p("iface(nil)")
			return
		}
		e := v.Elem()
		d.p("iface<%s>(", e.Type())
		d.dump(e)
		d.p(")")
	case reflect.Ptr:
		if v.IsNil() {
			d.p("ptr(nil)")
			return
		}
		addr := v.Pointer()
		if d.stack[addr] {
			d.p("ptr(cycle)")
			return
		}
		d.stack[addr] = true
		d.p("&")
		d.dump(v.Elem())
		delete(d.stack, addr)
	case reflect.Struct:
		d.p("%s{", t)
		d.depth++
		for i := 0; i < v.NumField(); i++ {
			name := t.Field(i).Name
			if d.o.SkipField != nil && d.o.SkipField(t, name) {
				continue
			}
			d.nl()
			d.p("%s:", name)
			d.dump(v.Field(i))
			d.p(",")
		}
		d.depth--
		d.nl()
		d.p("}")
	case reflect.Slice:
		if v.IsNil() {
			if d.o.NilEmptyEqual {
				d.p("slice[0]()")
			} else {
				d.p("slice(nil)")
			}
			return
		}
		n := v.Len()
		if t.Elem().Kind() == reflect.Uint8 {
			b := make([]byte, n)
			for i := 0; i < n; i++ {
				b[i] = byte(v.Index(i).Uint())
			}
			d.p("bytes(%d,%q)", n, b)
			if d.o.CapScan && v.Cap() > n {
				d.p("|cap%d", v.Cap())
			}
			return
		}
		d.p("slice[%d](", n)
		d.depth++
		for i := 0; i < n; i++ {
			d.nl()
			d.dump(v.Index(i))
			d.p(",")
		}
		if d.o.CapScan && v.Cap() > n {
			full := reslice(v)
			if full.IsValid() {
				d.nl()
				d.p("|cap:")
				for i := n; i < full.Len(); i++ {
					d.dump(full.Index(i))
					d.p(",")
				}
			} else {
				d.p("|cap%d", v.Cap())
			}
		}
		d.depth--
		d.nl()
		d.p(")")
	case reflect.Array:
		d.p("array[%d](", v.Len())
		for i := 0; i < v.Len(); i++ {
			d.dump(v.Index(i))
			d.p(",")
		}
		d.p(")")
	case reflect.Map:
		if v.IsNil() {
			if d.o.NilEmptyEqual {
				d.p("map[0]()")
			} else {
				d.p("map(nil)")
			}
			return
		}
		type kv struct {
			k string
			v reflect.Value
		}
		kvs := make([]kv, 0, v.Len())
		it := v.MapRange()
		for it.Next() {
			var sb strings.Builder
			kd := &dumper{w: &sb, o: d.o, stack: map[uintptr]bool{}}
			kd.o.Indent = false
			kd.dump(it.Key())
			kvs = append(kvs, kv{sb.String(), it.Value()})
		}
		sort.Slice(kvs, func(i, j int) bool { return kvs[i].k < kvs[j].k })
		d.p("map[%d](", len(kvs))
		d.depth++
		for _, e := range kvs {
			d.nl()
			d.p("%s=>", e.k)
			d.dump(e.v)
			d.p(",")
		}
		d.depth--
		d.nl()
		d.p(")")
	default:
		d.p("?%s", v.Kind())
	}
}

func posOf(v reflect.Value) hcl.Pos {
	return hcl.Pos{Line: int(v.Field(0).Int()), Column: int(v.Field(1).Int()), Byte: int(v.Field(2).Int())}
}

func reslice(v reflect.Value) (out reflect.Value) {
	defer func() {
		if recover() != nil {
			out = reflect.Value{}
		}
	}()
	a := access(v)
	return a.Slice3(0, v.Cap(), v.Cap())
}

func safeGoString(v cty.Value) (s string) {
	defer func() {
		if r := recover(); r != nil {
			s = fmt.Sprintf("<unprintable cty.Value: %v>", r)
		}
	}()
	return v.GoString()
}

// Err renders an error for comparison: dynamic type + message.
func Err(err error) string {
	if err == nil {
		return "nil"
	}
	return fmt.Sprintf("%T:%s", err, err.Error())
}

// FirstDiff returns a short description of the first place two renderings differ.
func FirstDiff(a, b string) string {
	n := len(a)
	if len(b) < n {
		n = len(b)
	}
	i := 0
	for i < n && a[i] == b[i] {
		i++
	}
	if i == len(a) && i == len(b) {
		return ""
	}
	lo := i - 120
	if lo < 0 {
		lo = 0
	}
	cut := func(s string) string {
		hi := i + 160
		if hi > len(s) {
			hi = len(s)
		}
		return s[lo:hi]
	}
	return fmt.Sprintf("at byte %d:\n  A: …%s…\n  B: …%s…", i, cut(a), cut(b))
}

var _ = errorT

// HashString is the 64-bit FNV-1a hash of a string.
func HashString(s string) uint64 {
	h := fnv.New64a()
	h.Write([]byte(s))
	return h.Sum64()
}
