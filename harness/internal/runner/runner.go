// Package runner is the driver/worker machinery: deterministic unit lists are
// sharded over worker processes, every case is journaled before the library is
// called, violations and coverage counters flow back as JSON lines, and the
// driver turns them into the verdict, the witness files and the evidence file.
package runner

import (
	"bufio"
	"crypto/sha1"
	"encoding/binary"
	"encoding/json"
	"fmt"
	"os"
	"os/exec"
	"path/filepath"
	"regexp"
	"sort"
	"strconv"
	"strings"
	"sync"
	"sync/atomic"
	"syscall"
	"time"
	"unsafe"
)

// Witness is a replayable description of one violating case.
type Witness struct {
	Property string            `json:"property"`
	Sig      string            `json:"signature"`
	What     string            `json:"what"`
	Unit     json.RawMessage   `json:"unit"`            // the unit (recipe + parameters) to re-run
	Focus    map[string]string `json:"focus,omitempty"` // narrows the unit to the failing point
	Files    map[string]string `json:"files,omitempty"` // concrete file contents at the failing point ("path/file" -> text)
	Query    string            `json:"query,omitempty"`
	Expected string            `json:"expected,omitempty"`
	Observed string            `json:"observed,omitempty"`
	Detail   string            `json:"detail,omitempty"`
	Seed     int64             `json:"seed"`
}

// Record is one line of a worker's output.
type Record struct {
	T        string              `json:"t"` // "viol" | "stats" | "inconclusive"
	Witness  *Witness            `json:"w,omitempty"`
	Counters map[string]int64    `json:"c,omitempty"`
	Sets     map[string][]string `json:"s,omitempty"`
	Samples  []interface{}       `json:"samples,omitempty"`
	Note     string              `json:"note,omitempty"`
}

// Reporter collects what a worker observed.
type Reporter struct {
	mu             sync.Mutex
	Property       string
	Seed           int64
	counters       map[string]int64
	sets           map[string]map[string]struct{}
	samples        []interface{}
	viols          map[string]*Witness // by sig: first witness only
	violN          map[string]int64
	incon          []string
	journal        *Journal
	out            *os.File
	part           string
	setsNew        map[string][]string
	violFlushed    map[string]int64
	samplesFlushed int
	MaxSamples     int
	SetCap         int
}

func NewReporter(prop string, seed int64) *Reporter {
	return &Reporter{Property: prop, Seed: seed, counters: map[string]int64{}, sets: map[string]map[string]struct{}{},
		viols: map[string]*Witness{}, violN: map[string]int64{}, MaxSamples: 6, SetCap: 200000,
		setsNew: map[string][]string{}, violFlushed: map[string]int64{}}
}

func (r *Reporter) Count(name string, n int64) {
	r.mu.Lock()
	r.counters[name] += n
	r.mu.Unlock()
}

func (r *Reporter) Eval(n int64) { r.Count("evaluations", n) }

func (r *Reporter) Distinct(set, key string) {
	r.mu.Lock()
	m := r.sets[set]
	if m == nil {
		m = map[string]struct{}{}
		r.sets[set] = m
	}
	if _, ok := m[key]; !ok && len(m) < r.SetCap {
		m[key] = struct{}{}
		r.setsNew[set] = append(r.setsNew[set], key)
	}
	r.mu.Unlock()
}

// NonTrivial records a distinct non-trivial case key.
func (r *Reporter) NonTrivial(key string) { r.Distinct("nontrivial", key) }

func (r *Reporter) Sample(v interface{}) {
	r.mu.Lock()
	if len(r.samples) < r.MaxSamples {
		r.samples = append(r.samples, v)
	}
	r.mu.Unlock()
}

func (r *Reporter) NumSamples() int {
	r.mu.Lock()
	defer r.mu.Unlock()
	return len(r.samples)
}

// Violation records a violation; only the first witness per signature is kept.
func (r *Reporter) Violation(w *Witness) {
	r.mu.Lock()
	defer r.mu.Unlock()
	w.Property = r.Property
	w.Seed = r.Seed
	if r.part != "" {
		if w.Focus == nil {
			w.Focus = map[string]string{}
		}
		w.Focus["part"] = r.part
	}
	r.violN[w.Sig]++
	if _, ok := r.viols[w.Sig]; !ok {
		r.viols[w.Sig] = w
	}
}

func (r *Reporter) HasViolation(sig string) bool {
	r.mu.Lock()
	defer r.mu.Unlock()
	_, ok := r.viols[sig]
	return ok
}

func (r *Reporter) ViolationSigs() []string {
	r.mu.Lock()
	defer r.mu.Unlock()
	var out []string
	for s := range r.viols {
		out = append(out, s)
	}
	sort.Strings(out)
	return out
}

func (r *Reporter) Inconclusive(note string) {
	r.mu.Lock()
	r.incon = append(r.incon, note)
	r.mu.Unlock()
}

// Mark journals the case about to be executed.
func (r *Reporter) SetJournal(j *Journal) { r.journal = j }

// SetPart names the part of a composite property that is executing.
func (r *Reporter) SetPart(p string) { r.part = p }

func (r *Reporter) Mark(unit, a, b, c int) {
	if r.journal != nil {
		r.journal.Mark(unit, a, b, c)
	}
}

// OpenOut opens the append-only record file of this worker.
func (r *Reporter) OpenOut(path string) error {
	f, err := os.OpenFile(path, os.O_CREATE|os.O_WRONLY|os.O_APPEND, 0o644)
	if err != nil {
		return err
	}
	r.out = f
	return nil
}

// FlushDelta appends everything observed since the last flush. It is called
// after every unit, so a later process-fatal event loses at most one unit.
func (r *Reporter) FlushDelta() error {
	r.mu.Lock()
	defer r.mu.Unlock()
	if r.out == nil {
		return nil
	}
	bw := bufio.NewWriter(r.out)
	enc := json.NewEncoder(bw)
	sigs := make([]string, 0, len(r.viols))
	for s := range r.viols {
		sigs = append(sigs, s)
	}
	sort.Strings(sigs)
	for _, s := range sigs {
		n := r.violN[s] - r.violFlushed[s]
		if n == 0 {
			continue
		}
		var w *Witness
		if r.violFlushed[s] == 0 {
			w = r.viols[s]
		} else {
			w = &Witness{Sig: s}
		}
		enc.Encode(Record{T: "viol", Witness: w, Counters: map[string]int64{"n": n}})
		r.violFlushed[s] = r.violN[s]
	}
	for _, n := range r.incon {
		enc.Encode(Record{T: "inconclusive", Note: n})
	}
	r.incon = nil
	sets := map[string][]string{}
	for n, l := range r.setsNew {
		sort.Strings(l)
		sets[n] = l
	}
	r.setsNew = map[string][]string{}
	enc.Encode(Record{T: "stats", Counters: r.counters, Sets: sets, Samples: r.samples[r.samplesFlushed:]})
	r.samplesFlushed = len(r.samples)
	r.counters = map[string]int64{}
	return bw.Flush()
}

// ---------------------------------------------------------------- journal

// Journal is a tiny memory mapped file holding the case currently executed, so
// that a process-fatal event still leaves the offending case id behind.
type Journal struct {
	mem []byte
}

func OpenJournal(path string) (*Journal, error) {
	f, err := os.OpenFile(path, os.O_RDWR|os.O_CREATE|os.O_TRUNC, 0o644)
	if err != nil {
		return nil, err
	}
	defer f.Close()
	if err := f.Truncate(64); err != nil {
		return nil, err
	}
	mem, err := syscall.Mmap(int(f.Fd()), 0, 64, syscall.PROT_READ|syscall.PROT_WRITE, syscall.MAP_SHARED)
	if err != nil {
		return nil, err
	}
	return &Journal{mem: mem}, nil
}

func (j *Journal) Mark(unit, a, b, c int) {
	seq := binary.LittleEndian.Uint64(j.mem[0:8])
	binary.LittleEndian.PutUint64(j.mem[8:16], uint64(int64(unit)))
	binary.LittleEndian.PutUint64(j.mem[16:24], uint64(int64(a)))
	binary.LittleEndian.PutUint64(j.mem[24:32], uint64(int64(b)))
	binary.LittleEndian.PutUint64(j.mem[32:40], uint64(int64(c)))
	binary.LittleEndian.PutUint64(j.mem[0:8], seq+1)
}

type JournalState struct {
	Seq           uint64
	Unit, A, B, C int
}

func ReadJournal(path string) (JournalState, bool) {
	b, err := os.ReadFile(path)
	if err != nil || len(b) < 40 {
		return JournalState{}, false
	}
	return JournalState{
		Seq:  binary.LittleEndian.Uint64(b[0:8]),
		Unit: int(int64(binary.LittleEndian.Uint64(b[8:16]))),
		A:    int(int64(binary.LittleEndian.Uint64(b[16:24]))),
		B:    int(int64(binary.LittleEndian.Uint64(b[24:32]))),
		C:    int(int64(binary.LittleEndian.Uint64(b[32:40]))),
	}, true
}

// Counter is a shared unit counter (memory mapped, atomically incremented by
// all workers) that gives dynamic load balancing across worker processes.
type Counter struct{ mem []byte }

func OpenCounter(path string) (*Counter, error) {
	f, err := os.OpenFile(path, os.O_RDWR|os.O_CREATE, 0o644)
	if err != nil {
		return nil, err
	}
	defer f.Close()
	if st, _ := f.Stat(); st.Size() < 8 {
		if err := f.Truncate(8); err != nil {
			return nil, err
		}
	}
	mem, err := syscall.Mmap(int(f.Fd()), 0, 8, syscall.PROT_READ|syscall.PROT_WRITE, syscall.MAP_SHARED)
	if err != nil {
		return nil, err
	}
	return &Counter{mem: mem}, nil
}

// Next claims the next unit index.
func (c *Counter) Next() int {
	p := (*int64)(unsafe.Pointer(&c.mem[0]))
	return int(atomic.AddInt64(p, 1) - 1)
}

// ---------------------------------------------------------------- known findings

type Finding struct {
	Property  string `json:"property"`
	Kind      string `json:"kind"`      // "known" | "fixed"
	Signature string `json:"signature"` // regular expression, anchored, over the violation signature
	What      string `json:"what"`
	Witness   string `json:"witness,omitempty"` // path under /verif/findings
	Commit    string `json:"commit,omitempty"`
}

type Findings struct {
	Findings []Finding `json:"findings"`
}

func LoadFindings(path string) (*Findings, error) {
	b, err := os.ReadFile(path)
	if err != nil {
		if os.IsNotExist(err) {
			return &Findings{}, nil
		}
		return nil, err
	}
	var f Findings
	if err := json.Unmarshal(b, &f); err != nil {
		return nil, err
	}
	return &f, nil
}

// Match returns the known (not fixed) finding matching a violation signature.
func (f *Findings) Match(prop, sig string) *Finding {
	for i := range f.Findings {
		fd := &f.Findings[i]
		if fd.Kind != "known" || fd.Property != prop {
			continue
		}
		re, err := regexp.Compile("^(?:" + fd.Signature + ")$")
		if err != nil {
			continue
		}
		if re.MatchString(sig) {
			return fd
		}
	}
	return nil
}

// ---------------------------------------------------------------- driver

// Config of one check run.
type Config struct {
	Property    string
	Tier        string
	Seed        int64
	Level       string // evidence level
	Rule        string
	Assumptions []string
	VerifDir    string // /verif
	Workers     int
	NumUnits    int
	// WorkerArgs builds the argv (after the binary) for shard i of n.
	WorkerArgs func(shard, of int, from int) []string
	// FatalIsViolation: a process-fatal event or a stuck case is a violation of
	// this property (C01); otherwise it is reported as inconclusive.
	FatalIsViolation bool
	// CaseBudget: CPU seconds without journal progress before a worker is
	// considered stuck on its current case.
	CaseBudget float64
	// Floor for distinct non-trivial cases; below => INCONCLUSIVE.
	Floor int
	// Extra coverage keys computed by the property from merged stats.
	Extra func(m *Merged) map[string]interface{}
	Env   []string
	// Race: workers are race-detector builds; their reports are collected.
	Race bool
}

// Merged is the aggregate of all workers.
type Merged struct {
	Counters map[string]int64
	Sets     map[string]map[string]struct{}
	Samples  []interface{}
	Viols    map[string]*Witness
	ViolN    map[string]int64
	Incon    []string
	Crashes  []string
}

func cpuSeconds(pid int) float64 {
	b, err := os.ReadFile(fmt.Sprintf("/proc/%d/stat", pid))
	if err != nil {
		return -1
	}
	s := string(b)
	i := strings.LastIndex(s, ")")
	if i < 0 {
		return -1
	}
	f := strings.Fields(s[i+1:])
	if len(f) < 14 {
		return -1
	}
	ut, _ := strconv.ParseFloat(f[11], 64)
	st, _ := strconv.ParseFloat(f[12], 64)
	return (ut + st) / 100.0
}

type workerState struct {
	shard    int
	from     int
	restarts int
}

// Drive runs all workers, aggregates and writes evidence. Returns exit code.
func Drive(cfg Config) int {
	start := time.Now()
	exe, err := os.Executable()
	if err != nil {
		fmt.Fprintln(os.Stderr, "cannot find own executable:", err)
		return 2
	}
	outDir, err := os.MkdirTemp(filepath.Dir(exe), "run-"+cfg.Property+"-")
	if err != nil {
		fmt.Fprintln(os.Stderr, "cannot create run dir:", err)
		return 2
	}
	defer os.RemoveAll(outDir)

	n := cfg.Workers
	if n < 1 {
		n = 1
	}
	if cfg.NumUnits > 0 && n > cfg.NumUnits {
		n = cfg.NumUnits
	}
	if cfg.CaseBudget == 0 {
		cfg.CaseBudget = 60
	}
	merged := &Merged{Counters: map[string]int64{}, Sets: map[string]map[string]struct{}{}, Viols: map[string]*Witness{}, ViolN: map[string]int64{}}
	var mu sync.Mutex
	var wg sync.WaitGroup
	infraFail := false
	for i := 0; i < n; i++ {
		wg.Add(1)
		go func(shard int) {
			defer wg.Done()
			ws := &workerState{shard: shard}
			for {
				again := runWorker(cfg, exe, outDir, n, ws, merged, &mu)
				if !again {
					break
				}
				ws.restarts++
				if ws.restarts > 25 {
					mu.Lock()
					merged.Incon = append(merged.Incon, fmt.Sprintf("worker %d restarted too often", shard))
					infraFail = true
					mu.Unlock()
					break
				}
			}
		}(i)
	}
	wg.Wait()
	_ = infraFail
	if cfg.Race {
		parseRaceLogs(cfg, outDir, merged)
	}
	return finish(cfg, merged, time.Since(start))
}

// runWorker returns true when the worker has to be restarted (after a fatal
// event), with the offending unit appended to ws.skip.
func runWorker(cfg Config, exe, outDir string, of int, ws *workerState, merged *Merged, mu *sync.Mutex) bool {
	tag := fmt.Sprintf("w%d.%d", ws.shard, ws.restarts)
	outFile := filepath.Join(outDir, tag+".jsonl")
	jfile := filepath.Join(outDir, tag+".journal")
	logFile := filepath.Join(outDir, tag+".log")
	args := cfg.WorkerArgs(ws.shard, of, ws.from)
	args = append(args, "-out", outFile, "-journal", jfile, "-counter", filepath.Join(outDir, "counter"))
	cmd := exec.Command(exe, args...)
	lf, _ := os.Create(logFile)
	cmd.Stdout = lf
	cmd.Stderr = lf
	cmd.Env = append(os.Environ(), cfg.Env...)
	if cfg.Race {
		cmd.Env = append(cmd.Env, "GORACE=halt_on_error=0 log_path="+filepath.Join(outDir, "race"))
	}
	if err := cmd.Start(); err != nil {
		mu.Lock()
		merged.Crashes = append(merged.Crashes, "cannot start worker: "+err.Error())
		mu.Unlock()
		return false
	}
	done := make(chan error, 1)
	go func() { done <- cmd.Wait() }()
	var lastSeq uint64
	lastCPU := 0.0
	stuck := false
	tick := time.NewTicker(400 * time.Millisecond)
	defer tick.Stop()
	var werr error
loop:
	for {
		select {
		case werr = <-done:
			break loop
		case <-tick.C:
			js, ok := ReadJournal(jfile)
			cpu := cpuSeconds(cmd.Process.Pid)
			if !ok || cpu < 0 {
				continue
			}
			if js.Seq != lastSeq {
				lastSeq = js.Seq
				lastCPU = cpu
				continue
			}
			if cpu-lastCPU > cfg.CaseBudget {
				stuck = true
				cmd.Process.Signal(syscall.SIGQUIT)
				select {
				case werr = <-done:
				case <-time.After(5 * time.Second):
					cmd.Process.Kill()
					werr = <-done
				}
				break loop
			}
		}
	}
	lf.Close()
	// read whatever the worker flushed
	if f, err := os.Open(outFile); err == nil {
		sc := bufio.NewScanner(f)
		sc.Buffer(make([]byte, 1<<20), 1<<28)
		mu.Lock()
		for sc.Scan() {
			var rec Record
			if json.Unmarshal(sc.Bytes(), &rec) != nil {
				continue
			}
			switch rec.T {
			case "viol":
				if old, ok := merged.Viols[rec.Witness.Sig]; !ok || (old.Unit == nil && old.What == "" && rec.Witness.What != "") {
					merged.Viols[rec.Witness.Sig] = rec.Witness
				}
				merged.ViolN[rec.Witness.Sig] += rec.Counters["n"]
			case "inconclusive":
				merged.Incon = append(merged.Incon, rec.Note)
			case "stats":
				for k, v := range rec.Counters {
					merged.Counters[k] += v
				}
				for k, l := range rec.Sets {
					m := merged.Sets[k]
					if m == nil {
						m = map[string]struct{}{}
						merged.Sets[k] = m
					}
					for _, e := range l {
						m[e] = struct{}{}
					}
				}
				for _, s := range rec.Samples {
					if len(merged.Samples) < 8 {
						merged.Samples = append(merged.Samples, s)
					}
				}
			}
		}
		mu.Unlock()
		f.Close()
	}
	if werr == nil && !stuck {
		return false
	}
	// fatal event: identify the case from the journal
	js, ok := ReadJournal(jfile)
	logTail := tailFile(logFile, 6000)
	mu.Lock()
	defer mu.Unlock()
	if !ok {
		merged.Crashes = append(merged.Crashes, fmt.Sprintf("worker %d died (%v) without a journal; log tail:\n%s", ws.shard, werr, logTail))
		return false
	}
	kind := "process-fatal event"
	if stuck {
		kind = fmt.Sprintf("no progress within %.0f CPU-seconds", cfg.CaseBudget)
	}
	w := &Witness{
		Property: cfg.Property,
		Sig:      "FATAL " + fatalClass(logTail, stuck),
		What:     fmt.Sprintf("%s while executing unit %d case (%d,%d,%d)", kind, js.Unit, js.A, js.B, js.C),
		Focus:    map[string]string{"unit": strconv.Itoa(js.Unit), "a": strconv.Itoa(js.A), "b": strconv.Itoa(js.B), "c": strconv.Itoa(js.C)},
		Detail:   logTail,
		Seed:     cfg.Seed,
	}
	if cfg.FatalIsViolation {
		if _, dup := merged.Viols[w.Sig]; !dup {
			merged.Viols[w.Sig] = w
		}
		merged.ViolN[w.Sig]++
	} else {
		merged.Incon = append(merged.Incon, w.What+" ["+w.Sig+"] (a crash/termination matter decided by C01; unit skipped here)")
	}
	ws.from = js.Unit + 1
	return true
}

func fatalClass(log string, stuck bool) string {
	if stuck {
		return "non-termination"
	}
	for _, l := range strings.Split(log, "\n") {
		if strings.HasPrefix(l, "fatal error:") || strings.HasPrefix(l, "runtime: goroutine stack exceeds") {
			return strings.TrimSpace(l)
		}
	}
	return "worker died"
}

func tailFile(path string, n int) string {
	b, err := os.ReadFile(path)
	if err != nil {
		return ""
	}
	// prefer the head of a goroutine dump: the fatal error line is at its start
	s := string(b)
	if i := strings.Index(s, "fatal error:"); i >= 0 {
		s = s[i:]
		if len(s) > n {
			s = s[:n]
		}
		return s
	}
	if len(s) > n {
		s = s[len(s)-n:]
	}
	return s
}

// parseRaceLogs turns the race detector's reports into violations.
func parseRaceLogs(cfg Config, dir string, m *Merged) {
	files, _ := filepath.Glob(filepath.Join(dir, "race.*"))
	nReports := 0
	for _, f := range files {
		b, err := os.ReadFile(f)
		if err != nil {
			continue
		}
		blocks := strings.Split(string(b), "==================")
		for _, blk := range blocks {
			if !strings.Contains(blk, "WARNING: DATA RACE") {
				continue
			}
			nReports++
			sig, what := raceSignature(blk)
			if _, dup := m.Viols[sig]; !dup {
				m.Viols[sig] = &Witness{Property: cfg.Property, Sig: sig, What: what, Detail: blk, Seed: cfg.Seed}
			}
			m.ViolN[sig]++
		}
	}
	m.Counters["race_reports"] += int64(nReports)
}

var repoFrameRe = regexp.MustCompile(`^\s*(github\.com/hashicorp/hcl-lang/[^\s(]+(?:\([^)]*\))?[^\s(]*)\(`)

func raceSignature(blk string) (string, string) {
	// split into the two access stacks
	lines := strings.Split(blk, "\n")
	var stacks [][]string
	var cur []string
	inStack := false
	for _, l := range lines {
		t := strings.TrimSpace(l)
		if strings.HasPrefix(t, "Write at") || strings.HasPrefix(t, "Read at") || strings.HasPrefix(t, "Previous write at") || strings.HasPrefix(t, "Previous read at") {
			if cur != nil {
				stacks = append(stacks, cur)
			}
			cur = []string{t}
			inStack = true
			continue
		}
		if strings.HasPrefix(t, "Goroutine ") {
			if cur != nil {
				stacks = append(stacks, cur)
				cur = nil
			}
			inStack = false
		}
		if inStack && strings.HasPrefix(t, "github.com/hashicorp/hcl-lang/") {
			fn := t
			if i := strings.LastIndex(fn, "("); i > 0 {
				fn = fn[:i]
			}
			cur = append(cur, strings.TrimPrefix(fn, "github.com/hashicorp/hcl-lang/"))
		}
	}
	if cur != nil {
		stacks = append(stacks, cur)
	}
	var inner, outer []string
	for _, st := range stacks {
		if len(st) > 1 {
			inner = append(inner, st[1])
			outer = append(outer, st[len(st)-1])
		} else {
			inner = append(inner, "(outside hcl-lang)")
			outer = append(outer, "(outside hcl-lang)")
		}
	}
	sort.Strings(inner)
	return "RACE " + strings.Join(inner, " <-> "), "data race reported by the Go race detector; outermost hcl-lang entry points: " + strings.Join(outer, " / ")
}

func finish(cfg Config, m *Merged, wall time.Duration) int {
	findings, err := LoadFindings(filepath.Join(cfg.VerifDir, "known_findings.json"))
	if err != nil {
		fmt.Fprintln(os.Stderr, "known_findings.json unreadable:", err)
		return 2
	}
	witDir := filepath.Join(cfg.VerifDir, "evidence", "witness", cfg.Property)
	os.RemoveAll(witDir)
	exit := 0
	sigs := make([]string, 0, len(m.Viols))
	for s := range m.Viols {
		sigs = append(sigs, s)
	}
	sort.Strings(sigs)
	knownSeen := map[string]int64{}
	unlisted := 0
	for _, s := range sigs {
		w := m.Viols[s]
		if fd := findings.Match(cfg.Property, s); fd != nil {
			knownSeen[fd.Signature] += m.ViolN[s]
			// keep a replayable witness of the listed finding as well
			os.MkdirAll(filepath.Join(witDir, "known"), 0o755)
			h := sha1.Sum([]byte(s))
			b, _ := json.MarshalIndent(w, "", " ")
			os.WriteFile(filepath.Join(witDir, "known", fmt.Sprintf("%x.json", h[:6])), b, 0o644)
			continue
		}
		unlisted++
		os.MkdirAll(witDir, 0o755)
		h := sha1.Sum([]byte(s))
		p := filepath.Join(witDir, fmt.Sprintf("%x.json", h[:6]))
		b, _ := json.MarshalIndent(w, "", " ")
		os.WriteFile(p, b, 0o644)
		fmt.Printf("VIOLATION property=%s replay=%s\n", cfg.Property, p)
		fmt.Printf("  signature: %s (seen %d times)\n  %s\n", s, m.ViolN[s], firstLines(w.What, 6))
		exit = 1
	}
	for _, fd := range findings.Findings {
		if fd.Kind == "known" && fd.Property == cfg.Property {
			fmt.Printf("KNOWN-FINDING: property=%s %s (matched %d times in this run)\n", cfg.Property, fd.What, knownSeen[fd.Signature])
		}
	}
	for _, c := range m.Crashes {
		fmt.Printf("INFRASTRUCTURE: %s\n", firstLines(c, 12))
	}
	nontriv := len(m.Sets["nontrivial"])
	evals := m.Counters["evaluations"]
	if len(m.Crashes) > 0 && evals == 0 {
		fmt.Printf("INFRASTRUCTURE-FAILURE property=%s nothing was observed\n", cfg.Property)
		return 2
	}
	incon := append([]string{}, m.Incon...)
	if cfg.Floor > 0 && nontriv < cfg.Floor {
		incon = append(incon, fmt.Sprintf("only %d distinct non-trivial cases observed, floor is %d", nontriv, cfg.Floor))
	}
	for _, n := range incon {
		fmt.Printf("INCONCLUSIVE property=%s reason=%s\n", cfg.Property, firstLines(n, 2))
	}

	cov := map[string]interface{}{
		"evaluations":            evals,
		"distinct_nontrivial":    nontriv,
		"rule":                   cfg.Rule,
		"samples":                m.Samples,
		"counters":               m.Counters,
		"inconclusive":           incon,
		"violation_signatures":   sigs,
		"known_findings_matched": knownSeen,
		"workers":                cfg.Workers,
		"units":                  cfg.NumUnits,
	}
	dist := map[string]int{}
	for k, s := range m.Sets {
		dist[k] = len(s)
	}
	cov["distinct_sets"] = dist
	if cfg.Extra != nil {
		for k, v := range cfg.Extra(m) {
			cov[k] = v
		}
	}
	if len(m.Samples) == 0 {
		cov["samples"] = []interface{}{}
	}
	ev := map[string]interface{}{
		"property_id": cfg.Property,
		"tier":        cfg.Tier,
		"seed":        cfg.Seed,
		"level":       cfg.Level,
		"coverage":    cov,
		"assumptions": cfg.Assumptions,
		"wall_s":      wall.Seconds(),
		"violations":  unlisted,
	}
	b, _ := json.MarshalIndent(ev, "", " ")
	os.MkdirAll(filepath.Join(cfg.VerifDir, "evidence"), 0o755)
	if err := os.WriteFile(filepath.Join(cfg.VerifDir, "evidence", cfg.Property+".json"), b, 0o644); err != nil {
		fmt.Fprintln(os.Stderr, "cannot write evidence:", err)
		return 2
	}
	verdict := "HELD"
	if exit != 0 {
		verdict = "VIOLATED"
	} else if len(incon) > 0 {
		verdict = "HELD-ON-OBSERVED (with inconclusive parts)"
	}
	fmt.Printf("%s property=%s tier=%s seed=%d evaluations=%d distinct_nontrivial=%d wall=%.1fs\n", verdict, cfg.Property, cfg.Tier, cfg.Seed, evals, nontriv, wall.Seconds())
	return exit
}

func firstLines(s string, n int) string {
	ls := strings.Split(s, "\n")
	if len(ls) > n {
		ls = append(ls[:n], "…")
	}
	return strings.Join(ls, "\n  ")
}
