package props

import (
	"reflect"
	"sort"

	"github.com/hashicorp/hcl/v2"
	"github.com/hashicorp/hcl/v2/hclsyntax"
	"github.com/zclconf/go-cty/cty"

	"verifharness/internal/postab"
)

// topLevelItemRanges lists the ranges of the attributes and blocks written at
// the top level of a native syntax file, in source order.
func topLevelItemRanges(f *hcl.File) []hcl.Range {
	body, ok := f.Body.(*hclsyntax.Body)
	if !ok {
		return nil
	}
	var out []hcl.Range
	for _, a := range body.Attributes {
		out = append(out, a.SrcRange)
	}
	for _, b := range body.Blocks {
		out = append(out, b.Range())
	}
	sort.Slice(out, func(i, j int) bool { return out[i].Start.Byte < out[j].Start.Byte })
	return out
}

func postabWalker(visit func(hcl.Range)) *postab.Walker {
	return &postab.Walker{Visit: func(path string, parent reflect.Value, r hcl.Range) { visit(r) }}
}

var ctyNil = cty.NilType

// structuralOffsets lists, per kind of written element, one byte offset inside
// each occurrence in a native file: block types and labels (top level and
// nested apart), attribute names, first bytes of attribute values.
func structuralOffsets(f *hcl.File) map[string][]int {
	out := map[string][]int{}
	body, ok := f.Body.(*hclsyntax.Body)
	if !ok {
		return out
	}
	var walk func(b *hclsyntax.Body, level string)
	walk = func(b *hclsyntax.Body, level string) {
		for _, a := range b.Attributes {
			out[level+"attr-name"] = append(out[level+"attr-name"], a.NameRange.Start.Byte+(a.NameRange.End.Byte-a.NameRange.Start.Byte)/2)
			out[level+"attr-value"] = append(out[level+"attr-value"], a.Expr.Range().Start.Byte)
		}
		for _, bl := range b.Blocks {
			out[level+"block-type"] = append(out[level+"block-type"], bl.TypeRange.Start.Byte+1)
			for _, lr := range bl.LabelRanges {
				out[level+"label"] = append(out[level+"label"], lr.Start.Byte+(lr.End.Byte-lr.Start.Byte)/2)
			}
			if bl.Body != nil {
				walk(bl.Body, "nested-")
			}
		}
	}
	walk(body, "top-")
	// calls: inside the (possibly namespaced, possibly blank-separated) name and
	// right behind the opening parenthesis (also of type declarations such as tuple())
	hclsyntax.VisitAll(body, func(n hclsyntax.Node) hcl.Diagnostics {
		if fc, ok := n.(*hclsyntax.FunctionCallExpr); ok {
			nr := fc.NameRange
			out["call-name"] = append(out["call-name"], nr.Start.Byte+(nr.End.Byte-nr.Start.Byte)/2, nr.End.Byte-1)
			out["call-open"] = append(out["call-open"], fc.OpenParenRange.End.Byte)
		}
		return nil
	})
	for k := range out {
		sort.Ints(out[k])
	}
	return out
}
