package props

import (
	"reflect"
	"sort"

	"github.com/hashicorp/hcl/v2"
	"github.com/hashicorp/hcl/v2/hclsyntax"
	"github.com/zclconf/go-cty/cty"

	"verifharness/internal/postab"
)

// topLevelItemRanges lists the ranges of the attributes and blocks written at
// the top level of a native syntax file, in source order.
func topLevelItemRanges(f *hcl.File) []hcl.Range {
	body, ok := f.Body.(*hclsyntax.Body)
	if !ok {
		return nil
	}
	var out []hcl.Range
	for _, a := range body.Attributes {
		out = append(out, a.SrcRange)
	}
	for _, b := range body.Blocks {
		out = append(out, b.Range())
	}
	sort.Slice(out, func(i, j int) bool { return out[i].Start.Byte < out[j].Start.Byte })
	return out
}

func postabWalker(visit func(hcl.Range)) *postab.Walker {
	return &postab.Walker{Visit: func(path string, parent reflect.Value, r hcl.Range) { visit(r) }}
}

var ctyNil = cty.NilType
