package props

import (
	"context"
	"fmt"
	"regexp"
	"sort"
	"strings"
	"unicode/utf8"

	"github.com/hashicorp/hcl-lang/decoder"
	"github.com/hashicorp/hcl/v2"
	"github.com/hashicorp/hcl/v2/hclsyntax"

	"verifharness/internal/core"
	"verifharness/internal/fixture"
	"verifharness/internal/gen"
	"verifharness/internal/model"
	"verifharness/internal/runner"
)

// C14: document and workspace symbols are a faithful outline.

type c14 struct{}

func (c14) ID() string { return "C14" }
func (c14) Meta() Meta {
	return Meta{
		Level:       "fault_enumeration",
		Rule:        "(a) outline: for every native-syntax file state (base file, seeded prefixes and token edits of fixtures and generated configurations) SymbolsInFile is compared with M-sym, a direct walk of the hclsyntax AST (one symbol per written attribute/block in source order, name = attribute name or block type plus quoted labels, range = the item's extent, recursion into nested bodies, tuple elements and literally keyed object items), and every child's range must lie inside its parent's; (b) workspace: for workspaces of k <= 4 paths ALL 2^k subsets of paths whose PathContext fails are enumerated (exhaustive) and Decoder.Symbols(q) for q in {\"\", substrings of existing names including windows across the blanks and quotes that the synthesised names contain, an absent string} - one workspace has its block headers aligned with several blanks/tabs so that names are not substrings of the source text - must equal the union over the readable paths of the top-level symbols whose name contains q. (c) JSON: generated configurations rendered in JSON syntax (generator and schema-known outline shared with C19, incl. dynamic blocks and their content): Decoder.Symbols over the JSON file must list exactly the attributes/blocks of the native rendering that the effective schema knows. distinct non-trivial = (a) file states with nesting depth >= 2, (b) (workspace, failing subset, query) with >= 1 failing and >= 1 healthy path.",
		Assumptions: []string{"HCL's own evaluation of an object key (KeyExpr.Value(nil)) defines 'literally keyed'", "the JSON outline is compared as an unordered set of (kind, nested name) lines: JSON groups blocks by type and carries no expression symbols"},
		Floor:       map[string]int{"quick": 60, "thorough": 300},
		CaseBudget:  60,
	}
}

func c14Params(tier string) (nGenQ, nGenT, broken int) {
	if tier == "thorough" {
		return 200, 3000, 40
	}
	return 200, 3000, 8
}

// c14Workspaces are the multi-path workspaces for the fault enumeration.
func c14Workspaces() []string {
	return []string{"tf-main", "tf-crlf", "tf-child-only", "four-paths", "four-paths-respaced"}
}

var headerGap = regexp.MustCompile(`(?m)^(\s*[A-Za-z_][A-Za-z0-9_-]*) ("[^"\n]*")( ("[^"\n]*"))? \{`)

// respaceHeaders aligns block headers with more than one blank between the
// type and the labels (symbol names are synthesised with exactly one, so they
// are no longer substrings of the source text).
func respaceHeaders(src string) string {
	return headerGap.ReplaceAllStringFunc(src, func(m string) string {
		sub := headerGap.FindStringSubmatch(m)
		out := sub[1] + "   " + sub[2]
		if sub[4] != "" {
			out += "\t" + sub[4]
		}
		return out + " {"
	})
}

func c14Workspace(name string) *core.Workspace {
	if name == "four-paths-respaced" {
		ws := c14Workspace("four-paths")
		for p, spec := range ws.Paths {
			cp := *spec
			cp.Files = map[string]string{}
			for f, src := range spec.Files {
				cp.Files[f] = respaceHeaders(src)
			}
			ws.Paths[p] = &cp
		}
		return ws
	}
	if name != "four-paths" {
		ws, _ := fixture.Make(name)
		// native files only
		for _, spec := range ws.Paths {
			for f := range spec.Files {
				if core.IsJSON(f) {
					delete(spec.Files, f)
				}
			}
		}
		return ws
	}
	base, _ := fixture.Make("tf-main")
	small, _ := fixture.Make("tf-small")
	uni, _ := fixture.Make("tf-unicode")
	ws := &core.Workspace{Paths: map[string]*core.PathSpec{}, Ctx: base.Ctx}
	ws.Paths["/ws/p1"] = base.Paths[fixture.RootPath]
	ws.Paths["/ws/p2"] = base.Paths[fixture.ChildPath]
	ws.Paths["/ws/p3"] = small.Paths[fixture.RootPath]
	ws.Paths["/ws/p4"] = uni.Paths[fixture.RootPath]
	ws.Order = []string{"/ws/p1", "/ws/p2", "/ws/p3", "/ws/p4"}
	return ws
}

func c14JSONUnits(tier string) int {
	if tier == "thorough" {
		return 6000
	}
	return 600
}

func (p c14) NumUnits(tier string, seed int64) int {
	q, t, _ := c14Params(tier)
	return len(diffSources(tier, seed, q, t)) + len(c14Workspaces()) + c14JSONUnits(tier)
}

// runJSONOutline is part (c): a generated configuration rendered in JSON syntax
// must yield the outline of its native rendering restricted to what the effective
// schema knows (JSON is decoded through the schema). Generator and schema-known
// outline are shared with C19.
func (p c14) runJSONOutline(k int, seed int64, rep *runner.Reporter) {
	gseed := seed*100000 + 50000 + int64(k)
	opt := []string{"simple", "simple,deps", "simple,refs"}[k%3]
	nat := gen.Build(gseed, opt)
	js, ok := gen.BuildJSON(gseed, opt)
	if !ok {
		rep.Count("not_expressible_in_json", 1)
		return
	}
	envN := nat.WS.Build(false)
	envJ := js.WS.Build(false)
	nb, ok := envN.PathCtx[gen.GenPath].Files["main.tf"].Body.(*hclsyntax.Body)
	if !ok {
		return
	}
	// (SymbolsInFile answers "unknown file format" for JSON files: the workspace query is the JSON outline)
	r := envJ.Run(core.Query{Kind: core.QWorkspaceSymbols, Arg: ""})
	rep.Eval(1)
	if r.Panic != nil || r.Err != nil {
		return // C01 / error paths
	}
	var want, got []string
	knownOutline(nb, model.EffRoot(nat.Root), "", &want)
	syms, _ := r.Value.([]decoder.Symbol)
	symbolLines(syms, "", &got)
	sort.Strings(want)
	sort.Strings(got)
	if strings.Join(want, "\n") != strings.Join(got, "\n") {
		class := "differs"
		switch {
		case len(got) < len(want):
			class = "symbols-missing"
		case len(got) > len(want):
			class = "symbols-extra"
		}
		rep.Violation(&runner.Witness{Sig: "JSON-OUTLINE " + class, What: "Decoder.Symbols of the JSON rendering is not the schema-known outline of the same configuration in native syntax",
			Unit: mustJSON(map[string]interface{}{"gen_seed": gseed, "opt": opt}), Files: map[string]string{"/gen/main.tf": nat.Src, "/gen/main.tf.json": js.Src},
			Expected: trunc(strings.Join(want, "\n"), 3000), Observed: trunc(strings.Join(got, "\n"), 3000)})
	}
	depth := 0
	for _, l := range want {
		if d := strings.Count(l, "/"); d > depth {
			depth = d
		}
	}
	if depth >= 2 {
		rep.NonTrivial(fmt.Sprintf("json|%d", gseed))
	}
	rep.Count("json_outlines_compared", 1)
}

func symKind(s decoder.Symbol) string {
	switch s.(type) {
	case *decoder.AttributeSymbol:
		return "attribute"
	case *decoder.BlockSymbol:
		return "block"
	case *decoder.ExprSymbol:
		return "expr"
	}
	return fmt.Sprintf("%T", s)
}

func realToModel(ss []decoder.Symbol) []model.Sym {
	out := make([]model.Sym, 0, len(ss))
	for _, s := range ss {
		out = append(out, model.Sym{Kind: symKind(s), Name: s.Name(), Range: s.Range(), Children: realToModel(s.NestedSymbols())})
	}
	return out
}

func symString(ss []model.Sym, indent string) string {
	var sb strings.Builder
	for _, s := range ss {
		fmt.Fprintf(&sb, "%s%s %q %s\n", indent, s.Kind, s.Name, fmtRange(s.Range))
		sb.WriteString(symString(s.Children, indent+"  "))
	}
	return sb.String()
}

func symDepth(ss []model.Sym) int {
	d := 0
	for _, s := range ss {
		if x := 1 + symDepth(s.Children); x > d {
			d = x
		}
	}
	return d
}

// containment checks child range inside parent range.
func symContainment(ss []model.Sym, parent *model.Sym, report func(child, parent model.Sym)) {
	for i := range ss {
		s := ss[i]
		if parent != nil {
			if s.Range.Filename != parent.Range.Filename || s.Range.Start.Byte < parent.Range.Start.Byte || s.Range.End.Byte > parent.Range.End.Byte {
				report(s, *parent)
			}
		}
		symContainment(s.Children, &ss[i], report)
	}
}

func (p c14) RunUnit(idx int, tier string, seed int64, focus map[string]string, rep *runner.Reporter) {
	q, t, broken := c14Params(tier)
	srcs := diffSources(tier, seed, q, t)
	if idx >= len(srcs)+len(c14Workspaces()) {
		p.runJSONOutline(idx-len(srcs)-len(c14Workspaces()), seed, rep)
		return
	}
	if idx >= len(srcs) {
		p.runWorkspace(c14Workspaces()[idx-len(srcs)], rep)
		return
	}
	rc := srcs[idx].Recipe
	rnd := unitRand(seed, "C14", idx)
	base, err := rc.Make()
	if err != nil {
		return
	}
	for sti, st := range diffStates(base, rnd, broken) {
		if core.IsJSON(st.File) {
			continue
		}
		rep.Mark(idx, sti, -1, -1)
		p.checkOutline(rc, st, rep)
	}
}

func (p c14) checkOutline(rc Recipe, st State, rep *runner.Reporter) {
	ws, env, _ := buildState(rc, st)
	if env == nil {
		return
	}
	f := env.PathCtx[st.Path].Files[st.File]
	if f == nil {
		return
	}
	body, ok := f.Body.(*hclsyntax.Body)
	if !ok {
		return
	}
	q := core.Query{Kind: core.QSymbolsInFile, Path: st.Path, File: st.File}
	r := env.Run(q)
	rep.Eval(1)
	if r.Panic != nil || r.Err != nil {
		return
	}
	real := realToModel(r.Value.([]decoder.Symbol))
	want := model.Symbols(body)
	a, b := symString(real, ""), symString(want, "")
	unit := mustJSON(diffUnit{Recipe: rc, Path: st.Path, File: st.File, Mut: st.Mut, Kind: q.Kind.String()})
	if a != b {
		rep.Violation(&runner.Witness{Sig: "OUTLINE " + outlineDiffClass(real, want), What: "SymbolsInFile differs from the outline of the written attributes and blocks",
			Unit: unit, Files: filesOf(ws), Query: q.String(), Expected: trunc(b, 4000), Observed: trunc(a, 4000)})
	}
	symContainment(real, nil, func(c, par model.Sym) {
		rep.Violation(&runner.Witness{Sig: "OUTLINE child-outside-parent kind=" + c.Kind + " parent=" + par.Kind, What: fmt.Sprintf("symbol %q %s lies outside its parent %q %s", c.Name, fmtRange(c.Range), par.Name, fmtRange(par.Range)),
			Unit: unit, Files: filesOf(ws), Query: q.String()})
	})
	rep.Count("symbols_compared", int64(countSyms(real)))
	if symDepth(want) >= 2 {
		rep.NonTrivial(fmt.Sprintf("outline|%s|%s|%s", rc, st.File, st.Mut))
		if rep.NumSamples() < 4 {
			rep.Sample(map[string]interface{}{"part": "outline", "source": rc.String(), "file": st.File, "state": st.Mut.String(), "symbols": countSyms(real), "depth": symDepth(want), "outline_head": trunc(b, 300)})
		}
	}
}

func countSyms(ss []model.Sym) int {
	n := len(ss)
	for _, s := range ss {
		n += countSyms(s.Children)
	}
	return n
}

func outlineDiffClass(real, want []model.Sym) string {
	if countSyms(real) != countSyms(want) {
		if countSyms(real) < countSyms(want) {
			return "missing-symbols"
		}
		return "extra-symbols"
	}
	// same count: names / order / ranges
	var walk func(a, b []model.Sym) string
	walk = func(a, b []model.Sym) string {
		if len(a) != len(b) {
			return "different-nesting"
		}
		for i := range a {
			switch {
			case a[i].Kind != b[i].Kind:
				return "kind-differs"
			case a[i].Name != b[i].Name:
				return "name-or-order-differs"
			case a[i].Range != b[i].Range:
				return "range-differs kind=" + a[i].Kind
			}
			if c := walk(a[i].Children, b[i].Children); c != "" {
				return c
			}
		}
		return ""
	}
	if c := walk(real, want); c != "" {
		return c
	}
	return "other"
}

func (p c14) runWorkspace(name string, rep *runner.Reporter) {
	ws := c14Workspace(name)
	if ws == nil {
		return
	}
	env := ws.Build(true)
	paths := ws.Order
	k := len(paths)
	// expected top-level symbols per path from the model
	type top struct {
		path, file, name string
		rng              hcl.Range
	}
	perPath := map[string][]top{}
	var names []string
	for _, path := range paths {
		for _, f := range env.SortedFiles(path) {
			body, ok := env.PathCtx[path].Files[f].Body.(*hclsyntax.Body)
			if !ok {
				continue
			}
			for _, s := range model.Symbols(body) {
				perPath[path] = append(perPath[path], top{path, f, s.Name, s.Range})
				names = append(names, s.Name)
			}
		}
	}
	queries := []string{"", "zz-absent-zz", "\""}
	sort.Strings(names)
	seenQ := map[string]bool{}
	for i, n := range names {
		if i%3 == 0 && len(n) > 2 {
			queries = append(queries, n[1:len(n)-1], n[:2], n)
		}
		// windows across the blanks that separate type and labels in a name
		for j := 0; j < len(n); j++ {
			if n[j] != ' ' {
				continue
			}
			lo, hi := j-3, j+4
			if lo < 0 {
				lo = 0
			}
			if hi > len(n) {
				hi = len(n)
			}
			if w := n[lo:hi]; !seenQ[w] && utf8.ValidString(w) {
				seenQ[w] = true
				queries = append(queries, w)
			}
		}
	}
	queries = append(queries, "\" \"")
	for mask := 0; mask < 1<<k; mask++ {
		ws.FailPaths = map[string]bool{}
		failing := 0
		var fl []string
		for i, path := range paths {
			if mask&(1<<i) != 0 {
				ws.FailPaths[path] = true
				failing++
				fl = append(fl, path)
			}
		}
		for _, qs := range queries {
			syms, err := env.Dec.Symbols(context.Background(), qs)
			rep.Eval(1)
			var got []string
			for _, s := range syms {
				got = append(got, fmt.Sprintf("%s|%s|%s", s.Path().Path, s.Name(), fmtRange(s.Range())))
			}
			var want []string
			for _, path := range paths {
				if ws.FailPaths[path] {
					continue
				}
				for _, tp := range perPath[path] {
					if qs == "" || strings.Contains(tp.name, qs) {
						want = append(want, fmt.Sprintf("%s|%s|%s", tp.path, tp.name, fmtRange(tp.rng)))
					}
				}
			}
			unit := mustJSON(map[string]interface{}{"workspace": name, "failing_paths": fl, "query": qs})
			if err != nil {
				rep.Violation(&runner.Witness{Sig: "WORKSPACE-SYMBOLS error", What: "Decoder.Symbols returned an error: " + err.Error(), Unit: unit})
				continue
			}
			if strings.Join(got, "\n") != strings.Join(want, "\n") {
				class := "differs"
				sg, sw := append([]string{}, got...), append([]string{}, want...)
				sort.Strings(sg)
				sort.Strings(sw)
				switch {
				case strings.Join(sg, "\n") == strings.Join(sw, "\n"):
					class = "order-differs"
				case len(got) < len(want):
					class = "symbols-missing"
				case len(got) > len(want):
					class = "symbols-extra"
				}
				hid := ""
				if failing > 0 {
					hid = " with-failing-paths"
				}
				rep.Violation(&runner.Witness{Sig: "WORKSPACE-SYMBOLS " + class + hid, What: fmt.Sprintf("Decoder.Symbols(%q) with failing paths %v: %d symbols, expected %d", qs, fl, len(got), len(want)),
					Unit: unit, Expected: trunc(strings.Join(want, "\n"), 3000), Observed: trunc(strings.Join(got, "\n"), 3000)})
			}
			if failing > 0 && failing < k {
				rep.NonTrivial(fmt.Sprintf("workspace|%s|%d|%s", name, mask, qs))
			}
			rep.Distinct("failing_subsets", fmt.Sprintf("%s|%d", name, mask))
		}
	}
	ws.FailPaths = nil
	rep.Sample(map[string]interface{}{"part": "workspace", "workspace": name, "paths": k, "failing_subsets_enumerated": 1 << k, "queries": len(queries)})
}

func (p c14) Extra(m *runner.Merged) map[string]interface{} {
	return map[string]interface{}{"exhaustive": true, "exhaustive_over": "all 2^k subsets of failing paths of every multi-path workspace (k<=4); file states and queries are sampled", "failing_subsets_enumerated": len(m.Sets["failing_subsets"])}
}

func init() { Register(c14{}) }
