package props

import (
	"encoding/json"
	"fmt"
	"reflect"
	"regexp"
	"sort"
	"strings"

	"github.com/hashicorp/hcl-lang/reference"
	"github.com/hashicorp/hcl/v2"
	"github.com/hashicorp/hcl/v2/hclsyntax"

	"verifharness/internal/core"
	"verifharness/internal/fixture"
	"verifharness/internal/postab"
	"verifharness/internal/runner"
)

// The "stream" is the execution stream shared by the invariant monitors
// (C01, C02, C06, C12, C13): sources x typing-history states x cursors x
// every query kind, each result handed to the enabled oracles.

// Source is one schema/configuration pair.
type Source struct {
	Recipe Recipe
}

// streamSources lists the sources of a tier: all fixtures + generated ones.
func streamSources(tier string, seed int64, nGenQuick, nGenThorough int) []Source {
	var out []Source
	for _, n := range fixture.Names() {
		out = append(out, Source{Recipe{Kind: "fixture", Name: n}})
	}
	n := nGenQuick
	if tier == "thorough" {
		n = nGenThorough
	}
	opts := []string{"", "refs", "deps", "unicode", "deps,refs", "clean", "hooks,deps", "wide", "mods,deps", "shapes,refs", "mods", "shapes,deps"}
	for i := 0; i < n; i++ {
		out = append(out, Source{Recipe{Kind: "gen", Seed: seed*100000 + int64(i), Opt: opts[i%len(opts)]}})
	}
	return out
}

// State is one file state of a typing history.
type State struct {
	Path, File string
	Mut        Mutation
}

// CaseSpec fully specifies one case; it is the witness "unit".
type CaseSpec struct {
	Recipe Recipe   `json:"recipe"`
	Path   string   `json:"path"`
	File   string   `json:"file"`
	Mut    Mutation `json:"mutation"`
	Kind   string   `json:"query_kind,omitempty"`
	Byte   int      `json:"byte"`
	Raw    bool     `json:"raw_pos,omitempty"` // position not on a boundary (C01 only)
	Arg    string   `json:"arg,omitempty"`
}

// caseCtx is what an oracle sees.
type caseCtx struct {
	Prop   string
	Spec   CaseSpec
	Env    *core.Env
	WS     *core.Workspace
	Rep    *runner.Reporter
	EditAt int
	// lazily computed
	badParserRanges map[string]map[hcl.Range]bool
	nodeSpans       map[string][]nodeSpan
	nodeRanges      map[string]map[hcl.Range]bool
}

func (c *caseCtx) witness(sig, what string, q core.Query, extra func(w *runner.Witness)) *runner.Witness {
	spec := c.Spec
	spec.Kind = q.Kind.String()
	spec.Byte = q.Pos.Byte
	spec.Arg = q.Arg
	w := &runner.Witness{Sig: sig, What: what, Unit: mustJSON(spec), Files: filesOf(c.WS), Query: q.String()}
	if extra != nil {
		extra(w)
	}
	return w
}

// Oracle checks one result.
type Oracle func(c *caseCtx, q core.Query, r core.Result)

// StreamProp is a property decided on the shared stream.
type StreamProp struct {
	id                      string
	meta                    Meta
	oracles                 []Oracle
	chunks                  map[string]int // tier -> chunks per source
	nGenQuick, nGenThorough int
	rawPos                  bool         // also send non-boundary / out-of-range positions
	kinds                   []core.QKind // nil => all
	// stateFilter lets a property skip states (e.g. only parseable ones).
	prefixStep map[string]int
	tokStep    map[string]int
}

func (p *StreamProp) ID() string { return p.id }
func (p *StreamProp) Meta() Meta { return p.meta }

func (p *StreamProp) NumUnits(tier string, seed int64) int {
	return len(streamSources(tier, seed, p.nGenQuick, p.nGenThorough)) * p.chunks[tier]
}

// enumerate the states of a workspace for a tier (deterministic).
func (p *StreamProp) states(ws *core.Workspace, tier string, seed int64, srcIdx int, rc Recipe) []State {
	var out []State
	pstep, tstep := p.prefixStep[tier], p.tokStep[tier]
	if rc.Kind == "fixture" && rc.Name == "tf-unicode" && tier == "quick" {
		// the small multi-byte fixture is edited at (nearly) every byte and token also in the quick tier
		pstep, tstep = 2, 1
	}
	if strings.Contains(rc.Opt, "wide") && p.id != "C06" {
		// bodies of 90..130 attributes answer every completion with a full candidate list:
		// they are there for the candidate limit (C06) and sampled more coarsely elsewhere
		pstep, tstep = pstep*5, tstep*5
	}
	paths := append([]string{}, ws.Order...)
	for _, path := range paths {
		spec := ws.Paths[path]
		files := make([]string, 0, len(spec.Files))
		for f := range spec.Files {
			files = append(files, f)
		}
		sort.Strings(files)
		for _, f := range files {
			src := spec.Files[f]
			out = append(out, State{path, f, Mutation{Kind: "none"}})
			if core.IsJSON(f) {
				// JSON files: prefixes only at a coarse step
				for a := int(seed+int64(srcIdx)) % 11; a < len(src); a += 11 {
					out = append(out, State{path, f, Mutation{Kind: "prefix", A: a}})
				}
				continue
			}
			// two files without any item and without a final newline (the root body is then an
			// empty range at the end of the file)
			for _, k := range []int64{0, 3} {
				i := int((seed%1000+int64(srcIdx)+k)%int64(len(itemlessTexts))+int64(len(itemlessTexts))) % len(itemlessTexts)
				out = append(out, State{path, f, Mutation{Kind: "text", Text: itemlessTexts[i]}})
			}
			if pstep > 0 {
				phase := int((seed + int64(srcIdx)*3) % int64(pstep))
				for a := phase; a < len(src); a += pstep {
					out = append(out, State{path, f, Mutation{Kind: "prefix", A: a}})
				}
			}
			if tstep > 0 {
				nt := NumTokens(src)
				phase := int((seed + int64(srcIdx)*5) % int64(tstep))
				for t := phase; t < nt; t += tstep {
					out = append(out, State{path, f, Mutation{Kind: "tokdel", A: t}})
					out = append(out, State{path, f, Mutation{Kind: "tokdup", A: t}})
					if tier == "thorough" {
						for _, r := range TokReplacements {
							out = append(out, State{path, f, Mutation{Kind: "tokrep", A: t, Text: r}})
						}
					} else {
						r := TokReplacements[(t+int(seed))%len(TokReplacements)]
						out = append(out, State{path, f, Mutation{Kind: "tokrep", A: t, Text: r}})
					}
				}
			}
		}
	}
	return out
}

func (p *StreamProp) RunUnit(idx int, tier string, seed int64, focus map[string]string, rep *runner.Reporter) {
	srcs := streamSources(tier, seed, p.nGenQuick, p.nGenThorough)
	k := p.chunks[tier]
	si, chunk := idx/k, idx%k
	if si >= len(srcs) {
		return
	}
	src := srcs[si]
	base, err := src.Recipe.Make()
	if err != nil {
		rep.Inconclusive(fmt.Sprintf("source %s cannot be built: %v", src.Recipe, err))
		return
	}
	states := p.states(base, tier, seed, si, src.Recipe)
	rep.Distinct("sources", src.Recipe.String())
	for sti, st := range states {
		if sti%k != chunk {
			continue
		}
		rep.Mark(idx, sti, -1, -1)
		p.runState(idx, sti, src.Recipe, st, rep, unitRand(seed, p.id, idx*100003+sti), nil)
	}
}

// runState executes all queries of one file state.
func (p *StreamProp) runState(unit, sti int, rc Recipe, st State, rep *runner.Reporter, rnd interface{ Intn(int) int }, only *CaseSpec) {
	ws, err := rc.Make()
	if err != nil {
		return
	}
	spec := ws.Paths[st.Path]
	if spec == nil {
		return
	}
	orig, ok := spec.Files[st.File]
	if !ok {
		return
	}
	text, editAt := st.Mut.Apply(orig)
	spec.Files[st.File] = text
	env := ws.Build(true)
	c := &caseCtx{Prop: p.id, Spec: CaseSpec{Recipe: rc, Path: st.Path, File: st.File, Mut: st.Mut}, Env: env, WS: ws, Rep: rep, EditAt: editAt}
	rep.Count("states", 1)
	rep.Distinct("mutation_kinds", st.Mut.Kind)

	// panics of the collectors while building the inputs
	for _, bp := range env.BuildPanics {
		for _, o := range p.oracles {
			o(c, core.Query{Kind: core.QCollectTargets, Path: st.Path}, core.Result{Panic: bp})
		}
	}
	tab := env.Tables[st.Path][st.File]
	if tab == nil {
		return
	}
	if tab.SelfCheck != "" && !core.IsJSON(st.File) {
		rep.Count("table_selfcheck_failures", 1)
	}
	run := func(q core.Query) {
		if p.kinds != nil {
			found := false
			for _, k := range p.kinds {
				if k == q.Kind {
					found = true
				}
			}
			if !found {
				return
			}
		}
		rep.Mark(unit, sti, q.Pos.Byte, int(q.Kind))
		r := env.Run(q)
		rep.Eval(1)
		rep.Distinct("query_kinds", q.Kind.String())
		for _, o := range p.oracles {
			o(c, q, r)
		}
	}
	if only != nil && only.Kind != "" {
		k, ok := core.QKindByName(only.Kind)
		if !ok {
			return
		}
		q := core.Query{Kind: k, Path: only.Path, File: only.File, Arg: only.Arg}
		if k.Positional() {
			if only.Raw {
				q.Pos = tab.Near(only.Byte)
			} else if pos, ok := tab.At(only.Byte); ok {
				q.Pos = pos
			} else {
				q.Pos = tab.Near(only.Byte)
			}
		}
		run(q)
		return
	}
	// path level and file level queries
	for _, k := range core.PathKinds {
		run(core.Query{Kind: k, Path: st.Path})
	}
	for _, k := range core.FileKinds {
		run(core.Query{Kind: k, Path: st.Path, File: st.File})
	}
	run(core.Query{Kind: core.QCodeLenses, Path: st.Path, File: st.File})
	run(core.Query{Kind: core.QWorkspaceSymbols, Arg: ""})
	// cursors
	var offs []int
	all := tab.Offsets()
	if st.Mut.Kind == "none" {
		offs = all
		if strings.Contains(rc.Opt, "wide") && p.id != "C06" {
			offs = nil
			for i := sti % 4; i < len(all); i += 4 {
				offs = append(offs, all[i])
			}
		}
	} else {
		lo, hi := editAt-48, editAt+8
		if st.Mut.Kind != "prefix" {
			lo, hi = editAt-24, editAt+24
		}
		for _, o := range all {
			if o >= lo && o <= hi {
				offs = append(offs, o)
			}
		}
		for i := 0; i < 4 && len(all) > 0; i++ {
			offs = append(offs, all[rnd.Intn(len(all))])
		}
	}
	for _, o := range offs {
		pos, _ := tab.At(o)
		for _, k := range core.PositionalKinds {
			run(core.Query{Kind: k, Path: st.Path, File: st.File, Pos: pos})
		}
	}
	if p.rawPos {
		// hostile positions: mid-rune offsets, beyond EOF, negative
		raw := []int{-1, tab.Len + 1, tab.Len + 100}
		for o := 0; o <= tab.Len && len(raw) < 12; o++ {
			if _, ok := tab.At(o); !ok {
				raw = append(raw, o)
			}
		}
		for _, o := range raw {
			pos := tab.Near(o)
			for _, k := range core.PositionalKinds {
				c.Spec.Raw = true
				run(core.Query{Kind: k, Path: st.Path, File: st.File, Pos: pos})
				c.Spec.Raw = false
			}
		}
		// a position whose line/column disagree with its byte
		if tab.Len > 3 {
			pos := hcl.Pos{Line: 1, Column: 1, Byte: tab.Len / 2}
			c.Spec.Raw = true
			for _, k := range core.PositionalKinds {
				run(core.Query{Kind: k, Path: st.Path, File: st.File, Pos: pos})
			}
			c.Spec.Raw = false
		}
	}
}

// Replay re-executes the single case of a witness.
func (p *StreamProp) Replay(w *runner.Witness, rep *runner.Reporter) error {
	var spec CaseSpec
	if err := json.Unmarshal(w.Unit, &spec); err != nil {
		return err
	}
	p.runState(0, 0, spec.Recipe, State{spec.Path, spec.File, spec.Mut}, rep, unitRand(1, p.id, 0), &spec)
	return nil
}

// ---------------------------------------------------------------- O1

func oracleCrash(c *caseCtx, q core.Query, r core.Result) {
	if r.Panic == nil {
		return
	}
	sig := "PANIC " + r.Panic.Sig
	c.Rep.Violation(c.witness(sig, fmt.Sprintf("%s panicked: %s", q.Kind, r.Panic.Value), q, func(w *runner.Witness) {
		w.Detail = trunc(r.Panic.Stack, 5000)
		w.Observed = r.Panic.Value
	}))
}

type nodeSpan struct {
	s, e int
	kind string
}

// nodeKindAt names the innermost AST node kind under a byte offset.
func (c *caseCtx) nodeKindAt(path, file string, off int) string {
	key := path + "\x00" + file
	if c.nodeSpans == nil {
		c.nodeSpans = map[string][]nodeSpan{}
	}
	spans, ok := c.nodeSpans[key]
	if !ok {
		spans = []nodeSpan{}
		pc := c.Env.PathCtx[path]
		if pc != nil && pc.Files[file] != nil {
			if body, isNative := pc.Files[file].Body.(*hclsyntax.Body); isNative {
				hclsyntax.VisitAll(body, func(n hclsyntax.Node) hcl.Diagnostics {
					r := n.Range()
					spans = append(spans, nodeSpan{r.Start.Byte, r.End.Byte, strings.TrimPrefix(fmt.Sprintf("%T", n), "*hclsyntax.")})
					return nil
				})
			} else {
				spans = append(spans, nodeSpan{0, 1 << 30, "json"})
			}
		}
		c.nodeSpans[key] = spans
	}
	kind := "none"
	for _, sp := range spans {
		if sp.s <= off && off <= sp.e {
			kind = sp.kind
		}
	}
	return kind
}

func outcomeClass(r core.Result) string {
	switch {
	case r.Panic != nil:
		return "panic"
	case r.Err != nil:
		return "error:" + fmt.Sprintf("%T", r.Err)
	}
	v := reflect.ValueOf(r.Value)
	if !v.IsValid() {
		return "nil"
	}
	switch v.Kind() {
	case reflect.Ptr, reflect.Map, reflect.Slice, reflect.Interface:
		if v.IsNil() {
			return "nil"
		}
	}
	switch v.Kind() {
	case reflect.Slice, reflect.Map:
		if v.Len() == 0 {
			return "empty"
		}
	}
	return "value"
}

// oracleCoverageC01 records the non-trivial tuples of C01.
func oracleCoverageC01(c *caseCtx, q core.Query, r core.Result) {
	nk := ""
	if q.Kind.Positional() {
		nk = c.nodeKindAt(q.Path, q.File, q.Pos.Byte)
	}
	c.Rep.NonTrivial(q.Kind.String() + "|" + nk + "|" + outcomeClass(r) + "|" + c.Spec.Mut.Kind)
	if c.Rep.NumSamples() < 6 && q.Kind.Positional() && r.Err == nil && outcomeClass(r) == "value" {
		c.Rep.Sample(map[string]interface{}{"source": c.Spec.Recipe.String(), "file": q.File, "mutation": c.Spec.Mut.String(), "query": q.String(), "node_under_cursor": nk, "outcome": outcomeClass(r)})
	}
}

// ---------------------------------------------------------------- O2

// rangePath decides which path's files a range found in a result refers to;
// exempt=true for ranges passed through from the schema.
func rangePath(q core.Query, fieldPath string, parent reflect.Value) (path string, exempt bool) {
	path = q.Path
	if !parent.IsValid() {
		return
	}
	pt := parent.Type()
	name := pt.Name()
	pkg := pt.PkgPath()
	last := fieldPath[strings.LastIndex(fieldPath, ".")+1:]
	switch {
	case strings.HasSuffix(pkg, "/reference") && name == "DirectOrigin":
		if last == "TargetRange" {
			return "", true
		}
	case strings.HasSuffix(pkg, "/decoder") && name == "ReferenceTarget":
		if last != "OriginRange" {
			if p := parent.FieldByName("Path"); p.IsValid() {
				path = p.FieldByName("Path").String()
			}
		}
	case strings.HasSuffix(pkg, "/decoder") && name == "ReferenceOrigin":
		if p := parent.FieldByName("Path"); p.IsValid() {
			path = p.FieldByName("Path").String()
		}
	case strings.HasSuffix(pkg, "/decoder") && strings.HasSuffix(name, "Symbol"):
		if p := parent.FieldByName("path"); p.IsValid() {
			path = p.FieldByName("Path").String()
		}
	}
	return
}

func (c *caseCtx) parserBad(path, file string) map[hcl.Range]bool {
	if c.badParserRanges == nil {
		c.badParserRanges = map[string]map[hcl.Range]bool{}
	}
	key := path + "\x00" + file
	if m, ok := c.badParserRanges[key]; ok {
		return m
	}
	m := map[hcl.Range]bool{}
	c.badParserRanges[key] = m
	pc := c.Env.PathCtx[path]
	if pc == nil || pc.Files[file] == nil {
		return m
	}
	body, ok := pc.Files[file].Body.(*hclsyntax.Body)
	if !ok {
		return m
	}
	tabs := c.Env.Tables[path]
	add := func(r hcl.Range) {
		if postab.CheckRange(tabs, r) != "" {
			m[r] = true
		}
	}
	hclsyntax.VisitAll(body, func(n hclsyntax.Node) hcl.Diagnostics {
		add(n.Range())
		switch t := n.(type) {
		case *hclsyntax.Attribute:
			add(t.NameRange)
			add(t.SrcRange)
			add(t.EqualsRange)
		case *hclsyntax.Block:
			add(t.TypeRange)
			add(t.OpenBraceRange)
			add(t.CloseBraceRange)
			add(t.DefRange())
			for _, lr := range t.LabelRanges {
				add(lr)
			}
		case *hclsyntax.FunctionCallExpr:
			add(t.NameRange)
			add(t.OpenParenRange)
			add(t.CloseParenRange)
		case *hclsyntax.ObjectConsExpr:
			add(t.OpenRange)
			add(t.SrcRange)
		case *hclsyntax.TupleConsExpr:
			add(t.OpenRange)
			add(t.SrcRange)
		}
		return nil
	})
	return m
}

// nodeRangeSet holds the range of every AST node of a file.
func (c *caseCtx) nodeRangeSet(path, file string) map[hcl.Range]bool {
	if c.nodeRanges == nil {
		c.nodeRanges = map[string]map[hcl.Range]bool{}
	}
	key := path + "\x00" + file
	if m, ok := c.nodeRanges[key]; ok {
		return m
	}
	m := map[hcl.Range]bool{}
	c.nodeRanges[key] = m
	pc := c.Env.PathCtx[path]
	if pc == nil || pc.Files[file] == nil {
		return m
	}
	if body, ok := pc.Files[file].Body.(*hclsyntax.Body); ok {
		hclsyntax.VisitAll(body, func(n hclsyntax.Node) hcl.Diagnostics {
			m[n.Range()] = true
			if oc, ok := n.(*hclsyntax.ObjectConsExpr); ok {
				for _, it := range oc.Items {
					m[it.KeyExpr.Range()] = true
				}
			}
			return nil
		})
	}
	return m
}

// directOriginAt reports whether a direct origin covers the query position
// (then the lookup result's range is the schema supplied target range).
func directOriginAt(env *core.Env, q core.Query) bool {
	pc := env.PathCtx[q.Path]
	if pc == nil {
		return false
	}
	for _, o := range pc.ReferenceOrigins {
		if do, ok := o.(reference.DirectOrigin); ok {
			if do.Range.Filename == q.File && do.Range.ContainsPos(q.Pos) {
				return true
			}
		}
	}
	return false
}

func oracleRanges(c *caseCtx, q core.Query, r core.Result) {
	if r.Panic != nil || r.Value == nil || q.Kind == core.QCodeLenses {
		return
	}
	if q.Kind == core.QGotoDef && directOriginAt(c.Env, q) {
		return
	}
	textClass := "ascii"
	if src, ok := c.WS.Paths[q.Path]; ok {
		for _, s := range src.Files {
			if strings.Contains(s, "\r\n") {
				textClass = "crlf"
			}
			for i := 0; i < len(s); i++ {
				if s[i] >= 0x80 {
					textClass = "multibyte"
					break
				}
			}
		}
	}
	nRanges := 0
	w := &postab.Walker{}
	w.Visit = func(fpath string, parent reflect.Value, rng hcl.Range) {
		p, exempt := rangePath(q, fpath, parent)
		if exempt {
			return
		}
		nRanges++
		// zero ranges inside "absent" optional fields are not results
		if rng == (hcl.Range{}) {
			return
		}
		tabs := c.Env.Tables[p]
		if tabs == nil {
			sig := fmt.Sprintf("RANGE %s %s unknown-path", q.Kind, fpath)
			c.Rep.Violation(c.witness(sig, fmt.Sprintf("range %v reported for path %q which is not a path of the workspace", rng, p), q, nil))
			return
		}
		prob := postab.CheckRange(tabs, rng)
		if prob == "" {
			return
		}
		class := problemClass(prob)
		origin := "computed"
		if c.parserBad(p, rng.Filename)[rng] {
			origin = "parser-node-range"
		}
		sig := fmt.Sprintf("RANGE %s %s %s %s", q.Kind, normPath(fpath), class, origin)
		c.Rep.Violation(c.witness(sig, fmt.Sprintf("%s result field %s holds range %s: %s", q.Kind, fpath, fmtRange(rng), prob), q, func(w *runner.Witness) {
			w.Observed = fmtRange(rng)
			w.Expected = "a range of a file of this path with 0 <= start <= end <= len and line/column matching the byte offsets"
		}))
	}
	w.Walk(r.Value)
	if nRanges > 0 {
		c.Rep.NonTrivial(q.Kind.String() + "|" + textClass + "|" + c.Spec.Mut.Kind + "|" + c.nodeKindAt(q.Path, q.File, q.Pos.Byte))
		c.Rep.Count("ranges_checked", int64(nRanges))
		if c.Rep.NumSamples() < 6 && textClass != "ascii" {
			c.Rep.Sample(map[string]interface{}{"source": c.Spec.Recipe.String(), "query": q.String(), "mutation": c.Spec.Mut.String(), "ranges_in_result": nRanges, "text_class": textClass})
		}
	}
}

var nestedRe = regexp.MustCompile(`(\.nestedSymbols\[\])+|(\.NestedTargets\[\])+`)

// normPath collapses repeated nesting so that signatures do not depend on depth.
func normPath(p string) string {
	return nestedRe.ReplaceAllStringFunc(p, func(m string) string {
		if strings.HasPrefix(m, ".nestedSymbols") {
			return ".nestedSymbols[]*"
		}
		return ".NestedTargets[]*"
	})
}

func problemClass(p string) string {
	switch {
	case strings.Contains(p, "not a file of this path"):
		return "wrong-file"
	case strings.Contains(p, "bytes not within"):
		return "bytes-out-of-order-or-bounds"
	case strings.Contains(p, "not on a character boundary"):
		return "off-boundary"
	case strings.HasPrefix(p, "start is"):
		return "start-linecol-mismatch"
	case strings.HasPrefix(p, "end is"):
		return "end-linecol-mismatch"
	}
	return "other"
}

func fmtRange(r hcl.Range) string {
	return fmt.Sprintf("%s:%d,%d(b%d)-%d,%d(b%d)", r.Filename, r.Start.Line, r.Start.Column, r.Start.Byte, r.End.Line, r.End.Column, r.End.Byte)
}

func init() {
	Register(&StreamProp{
		id: "C01",
		meta: Meta{
			Level: "exploration",
			Rule:  "cases = (fixture or generated schema+config) x typing-history state (base file, byte prefixes, single-token delete/duplicate/replace) x cursor (all boundary offsets of the base file; offsets around the edit point otherwise; plus mid-rune, out-of-range and inconsistent positions) x all 16 public query entry points, each executed against the real library under recover() with a per-case journal and a CPU-time watchdog. distinct non-trivial = distinct (entry point, AST node kind under the cursor, outcome class, mutation kind) tuples.",
			Assumptions: []string{"termination is decided as bounded progress: no case may consume 60 CPU-seconds without finishing (median case < 1 ms)",
				"schemas are those the generator draws and schema.Validate() accepts; attributes with a nil Constraint and TargetableAs on the root body are not generated (DESIGN.md C01)"},
			Floor:            map[string]int{"quick": 150, "thorough": 300},
			CaseBudget:       60,
			FatalIsViolation: true,
		},
		oracles:      []Oracle{oracleCrash, oracleCoverageC01},
		chunks:       map[string]int{"quick": 8, "thorough": 16},
		nGenQuick:    24,
		nGenThorough: 40,
		rawPos:       true,
		prefixStep:   map[string]int{"quick": 9, "thorough": 2},
		tokStep:      map[string]int{"quick": 11, "thorough": 3},
	})
	Register(&StreamProp{
		id: "C06",
		meta: Meta{Level: "exploration",
			Rule:        "same typing-history stream as C01 restricted to CompletionAtPos with and without required-field prefilling (fixtures; generated schemas incl. 'wide' bodies of 90-130 attributes for populations below / at / above the limit; hooks): every candidate must carry an edit for the requested file with a well-formed range (position table) that starts at or before the cursor and reaches it (only blanks in between), plain text without tab-stop syntax, snippet tab stops consecutive and unique (final ${0} aside); a list never exceeds 100 entries; whenever a list has >= 20 entries the same query is repeated through the verif hook with the limit lifted: a list marked complete must not be shorter than the unlimited one, lists below the limit must be identical in length; a list holding hook candidates must not be marked complete. distinct non-trivial = distinct (candidate kind, prefill, text left of the cursor, AST node kind under the cursor, mutation kind) with >= 1 candidate.",
			Assumptions: []string{"tab-stop grammar: ${N}, ${N:default}, $N", "hook candidates are recognised by the detail strings the harness' own hooks set"},
			Floor:       map[string]int{"quick": 50, "thorough": 100}, CaseBudget: 60},
		oracles:      []Oracle{oracleCandidates},
		kinds:        []core.QKind{core.QCompletion, core.QCompletionPrefill},
		chunks:       map[string]int{"quick": 8, "thorough": 16},
		nGenQuick:    16,
		nGenThorough: 24,
		prefixStep:   map[string]int{"quick": 11, "thorough": 2},
		tokStep:      map[string]int{"quick": 13, "thorough": 3},
	})
	c12stream := &StreamProp{
		id: "C12",
		meta: Meta{Level: "exploration",
			Rule:        "same typing-history stream as C01 restricted to HoverAtPos at every cursor: a non-nil hover must have non-empty content, no accompanying error, a well-formed range (position table) for the requested file that contains the cursor (start <= cursor <= end). Element-specific half: the cursor is classified from the AST with the model's effective schema (M-eff); strictly inside a known attribute name / block type / label the hover must exist, name the element, carry the description of the effective schema (dependent body for key labels) and have exactly the whole attribute / the type keyword / the label as range; on an attribute the effective schema does not know there must be none; inside a value the range must stay within the attribute's expression. Second part (object-items): for every written object/map literal with >= 2 items the items in front of item i are removed and the hover on item i (key and value cursors) must not change. distinct non-trivial = distinct (AST node kind under the cursor, mutation kind, first word of the content) with a hover.",
			Assumptions: []string{"a cursor exactly at the end of the hover range is accepted as contained (counted separately in the evidence)"},
			Floor:       map[string]int{"quick": 50, "thorough": 100}, CaseBudget: 60},
		oracles:      []Oracle{oracleHover, oracleHoverElements},
		kinds:        []core.QKind{core.QHover},
		chunks:       map[string]int{"quick": 8, "thorough": 16},
		nGenQuick:    24,
		nGenThorough: 50,
		prefixStep:   map[string]int{"quick": 7, "thorough": 2},
		tokStep:      map[string]int{"quick": 9, "thorough": 3},
	}
	Register(&Composite{id: "C12", meta: c12stream.meta, Parts: []Prop{c12stream, c12items{}, c12reftok{}, crlfTwinPart{}}, Names: []string{"stream", "object-items", "reference-tokens", "line-endings"}})
	c13stream := &StreamProp{
		id: "C13",
		meta: Meta{Level: "exploration",
			Rule:        "same typing-history stream as C01 restricted to SemanticTokensInFile on every file state (base, byte prefixes, single-token edits): tokens sorted by start, pairwise non-overlapping, non-empty, of an advertised type, each with a well-formed range of the requested file (position table). Exactness of the structure tokens: a model walk of the AST with the effective schema (M-eff) lists every known attribute name, block type and label with the modifiers of the element and of all enclosing blocks; the attrName/blockType/blockLabel tokens must be exactly those (none for unknown attributes, unknown blocks, surplus labels) and every value token must lie inside the value of a known attribute. Which value tokens appear inside a known value is decided in two places: a call whose name carries a function-name token must carry a literal token on every literal argument of the parameter's type (fixed, variadic, variadic-only signatures), the items of one map literal are treated alike (a literal value token on one item implies one on every item with a literal value of that kind), and (part conditional-branches, metamorphic) the tokens inside a branch of a conditional that is the whole value of a known attribute must equal the tokens of that branch written as the value directly. distinct non-trivial = file states with >= 3 token types, keyed by (source, file, mutation).",
			Assumptions: []string{"exactness of the token set beyond the C16 markers is not decided by this check"},
			Floor:       map[string]int{"quick": 50, "thorough": 100}, CaseBudget: 60},
		oracles:      []Oracle{oracleTokens, oracleTokenStructure, oracleTokenCallArgs, oracleTokenMapItems},
		kinds:        []core.QKind{core.QSemTokens},
		chunks:       map[string]int{"quick": 8, "thorough": 16},
		nGenQuick:    24,
		nGenThorough: 40,
		prefixStep:   map[string]int{"quick": 3, "thorough": 1},
		tokStep:      map[string]int{"quick": 3, "thorough": 1},
	}
	Register(&Composite{id: "C13", meta: c13stream.meta, Parts: []Prop{c13stream, c13cond{}, c12items{tokens: true}, crlfTwinPart{tokens: true}}, Names: []string{"stream", "conditional-branches", "object-items", "line-endings"}})
	Register(&StreamProp{
		id: "C02",
		meta: Meta{
			Level:       "exploration",
			Rule:        "same execution stream as C01 (weighted to multi-byte and CRLF sources); every hcl.Range found by reflection in every result value is validated against a position table derived from HCL's own lexer (file of the reported path, 0<=start<=end<=len, both ends on grapheme boundaries with exactly the table's line/column). Schema-supplied ranges (DirectOrigin.TargetRange and lookups through direct origins, code-lens callbacks) are exempt. distinct non-trivial = distinct (query kind, text class ascii/multibyte/crlf, mutation kind, AST node kind under cursor) with at least one range in the result.",
			Assumptions: []string{"hclsyntax.LexConfig + textseg grapheme segmentation define the reference line/column of every byte offset", "JSON fixtures are ASCII without escapes so that plain grapheme segmentation is exact"},
			Floor:       map[string]int{"quick": 100, "thorough": 200},
			CaseBudget:  60,
		},
		oracles:      []Oracle{oracleRanges},
		chunks:       map[string]int{"quick": 8, "thorough": 16},
		nGenQuick:    16,
		nGenThorough: 30,
		prefixStep:   map[string]int{"quick": 9, "thorough": 2},
		tokStep:      map[string]int{"quick": 11, "thorough": 3},
	})
}
