package props

import (
	"fmt"
	"math/rand"
	"runtime"
	"sort"
	"strings"
	"sync"
	"sync/atomic"
	"time"

	"verifharness/internal/core"
	"verifharness/internal/dump"
	"verifharness/internal/runner"
)

// C05: concurrent queries on a shared path context are race-free and equal to
// the same query run alone. The race detector (the binary is built with
// -race) is the oracle for the first half, equality with a sequential table
// computed beforehand for the second.

type c05 struct{}

func (c05) ID() string { return "C05" }
func (c05) Meta() Meta {
	return Meta{
		Level: "exploration",
		Rule:  "the harness is built with `go build -race`; G in {16,32,64} goroutines issue seeded permutations of all query kinds at seeded cursors through per-request Decoder.Path() calls against ONE shared PathReader/PathContext/schema (fixtures with dependent bodies, extensions, hooks, validators; generated 'deps' schemas), with yields/sleeps injected at the library's call-outs (PathReader methods, every Validator.Visit), at GOMAXPROCS in {2,4,16}; every result is compared with the sequential result of the same query computed first on the same context; race reports are read from the detector's log (halt_on_error=0) and de-duplicated by the innermost hcl-lang functions of the two stacks. distinct non-trivial = operations that overlapped in time with an operation of a different kind, keyed by (source, kind, overlapping kind).",
		Assumptions: []string{"the race detector only reports races whose two accesses both execute in this run; reach is the workload's - 'all interleavings' is not claimed",
			"call/return timestamps come from one monotonic clock (time.Since of a common start)"},
		Floor:            map[string]int{"quick": 30, "thorough": 60},
		CaseBudget:       300,
		FatalIsViolation: true,
		MaxWorkers:       4,
		Race:             true,
	}
}

type c05cfg struct {
	Recipe     Recipe
	Goroutines int
	Procs      int
	OpsPerG    int
	Rep        int
}

func c05Configs(tier string, seed int64) []c05cfg {
	srcs := []Recipe{{Kind: "fixture", Name: "tf-main"}, {Kind: "fixture", Name: "tf-unicode"}, {Kind: "fixture", Name: "tf-typedecls"}, {Kind: "fixture", Name: "tf-twofiles"},
		{Kind: "gen", Seed: seed*100000 + 2, Opt: "deps"}, {Kind: "gen", Seed: seed*100000 + 6, Opt: "hooks,deps"}, {Kind: "gen", Seed: seed*100000 + 4, Opt: "deps,refs"}}
	reps, ops := 1, 120
	if tier == "thorough" {
		reps, ops = 6, 400
		for i := 0; i < 10; i++ {
			srcs = append(srcs, Recipe{Kind: "gen", Seed: seed*100000 + 100 + int64(i), Opt: []string{"deps", "refs", "hooks,deps", "", "wide"}[i%5]})
		}
	}
	var out []c05cfg
	gp := [][2]int{{16, 4}, {64, 16}, {32, 2}}
	for r := 0; r < reps; r++ {
		for si, s := range srcs {
			for gi, g := range gp {
				if tier == "quick" && (si+gi)%2 == 1 && si > 0 {
					continue
				}
				out = append(out, c05cfg{Recipe: s, Goroutines: g[0], Procs: g[1], OpsPerG: ops, Rep: r})
			}
		}
	}
	return out
}

func (p c05) NumUnits(tier string, seed int64) int { return len(c05Configs(tier, seed)) }

type opRec struct {
	g      int
	kind   core.QKind
	t0, t1 int64
}

func (p c05) RunUnit(idx int, tier string, seed int64, focus map[string]string, rep *runner.Reporter) {
	cfgs := c05Configs(tier, seed)
	if idx >= len(cfgs) {
		return
	}
	cfg := cfgs[idx]
	if !core.RaceEnabled {
		rep.Inconclusive("C05 worker was not built with -race: the race-freedom half is not decided")
	}
	rnd := unitRand(seed, "C05", idx)
	ws, err := cfg.Recipe.Make()
	if err != nil {
		return
	}
	// Yields / short sleeps injected at the library's call-outs. The decision must not
	// synchronise the goroutines itself (an atomic counter shared by all of them orders
	// their accesses for the race detector and hides every race whose two accesses do
	// not overlap in real time): it is taken from the clock.
	ws.CallOut = func(site string) {
		n := time.Now().UnixNano() >> 6
		switch {
		case n%211 == 0:
			time.Sleep(20 * time.Microsecond)
		case n%5 == 0:
			runtime.Gosched()
		}
	}
	env := ws.Build(true)
	env.FreshPD = true // goroutines share the Decoder, not a PathDecoder (its Prefill flag is set per request)
	// query list over all files of all paths
	var qs []core.Query
	for _, path := range ws.Order {
		for _, f := range env.SortedFiles(path) {
			qs = append(qs, queryList(env, State{Path: path, File: f}, rnd, 24, -1)...)
		}
	}
	var heavy []int
	for i, q := range qs {
		if !q.Kind.Positional() {
			heavy = append(heavy, i)
		}
	}
	// sequential table first
	o := dump.Options{}
	table := make([]string, len(qs))
	for i, q := range qs {
		if i%16 == 0 {
			rep.Mark(idx, 0, i, 0)
		}
		table[i] = canon(q, env.Run(q), o)
	}
	resolved := 0
	for _, path := range ws.Order {
		for _, f := range env.SortedFiles(path) {
			resolved += resolvedDependentBlocks(env, State{Path: path, File: f})
		}
	}
	old := runtime.GOMAXPROCS(cfg.Procs)
	defer runtime.GOMAXPROCS(old)
	// Cold start: the first queries a process ever runs on a schema are concurrent ones.
	// Inputs are built afresh (new schema objects) and NOT collected or queried
	// sequentially first, so that anything initialised lazily on first use is initialised
	// under concurrency; results are not compared here (no targets are installed), the
	// race detector and the runtime's own map checks are the oracle.
	if wsCold, err := cfg.Recipe.Make(); err == nil {
		wsCold.CallOut = ws.CallOut
		envCold := wsCold.Build(false)
		envCold.FreshPD = true
		var cw sync.WaitGroup
		coldSeeds := make([]int64, cfg.Goroutines)
		for g := range coldSeeds {
			coldSeeds[g] = rnd.Int63()
		}
		for g := 0; g < cfg.Goroutines; g++ {
			cw.Add(1)
			go func(g int) {
				defer cw.Done()
				r := rand.New(rand.NewSource(coldSeeds[g]))
				for i := 0; i < 12; i++ {
					qi := r.Intn(len(qs))
					if len(heavy) > 0 && r.Intn(2) == 0 {
						qi = heavy[r.Intn(len(heavy))]
					}
					envCold.Run(qs[qi])
				}
			}(g)
		}
		cw.Wait()
		rep.Mark(idx, 1, 0, 0)
		rep.Eval(int64(cfg.Goroutines * 12))
		rep.Count("cold_start_operations", int64(cfg.Goroutines*12))
	}
	start := time.Now()
	var wg sync.WaitGroup
	recs := make([][]opRec, cfg.Goroutines)
	type mism struct {
		q        core.Query
		seq, con string
	}
	mismatches := make([][]mism, cfg.Goroutines)
	seeds := make([]int64, cfg.Goroutines)
	for g := range seeds {
		seeds[g] = rnd.Int63()
	}
	// Progress for the driver's no-progress watchdog: every goroutine publishes its own
	// operation count in its own slot (an atomic store read only by the reporter below -
	// this orders a worker before the reporter, never two workers with each other).
	progress := make([]atomic.Int64, cfg.Goroutines)
	stopProgress := make(chan struct{})
	progressDone := make(chan struct{})
	go func() {
		defer close(progressDone)
		tk := time.NewTicker(250 * time.Millisecond)
		defer tk.Stop()
		last := int64(-1)
		for {
			select {
			case <-stopProgress:
				return
			case <-tk.C:
				var sum int64
				for i := range progress {
					sum += progress[i].Load()
				}
				if sum != last {
					last = sum
					rep.Mark(idx, 2, int(sum), 0)
				}
			}
		}
	}()
	for g := 0; g < cfg.Goroutines; g++ {
		wg.Add(1)
		go func(g int) {
			defer wg.Done()
			r := rand.New(rand.NewSource(seeds[g]))
			for i := 0; i < cfg.OpsPerG; i++ {
				progress[g].Store(int64(i))
				qi := r.Intn(len(qs))
				// whole-file / whole-path queries touch the most shared state: a third of the load
				if len(heavy) > 0 && r.Intn(3) == 0 {
					qi = heavy[r.Intn(len(heavy))]
				}
				q := qs[qi]
				t0 := int64(time.Since(start))
				res := env.Run(q)
				t1 := int64(time.Since(start))
				recs[g] = append(recs[g], opRec{g, q.Kind, t0, t1})
				if s := canon(q, res, o); s != table[qi] {
					mismatches[g] = append(mismatches[g], mism{q, table[qi], s})
				}
			}
		}(g)
	}
	wg.Wait()
	close(stopProgress)
	<-progressDone
	// ---- merge (single threaded from here on)
	var all []opRec
	for _, r := range recs {
		all = append(all, r...)
	}
	rep.Eval(int64(len(all)))
	rep.Count("goroutines", int64(cfg.Goroutines))
	for _, ms := range mismatches {
		for _, m := range ms {
			rep.Violation(&runner.Witness{Sig: "CONCURRENT-RESULT-DIFFERS " + m.q.Kind.String(),
				What: fmt.Sprintf("%s run concurrently with %d goroutines returned a result different from the same query run alone", m.q.Kind, cfg.Goroutines),
				Unit: mustJSON(cfg), Files: filesOf(ws), Query: m.q.String(), Detail: dump.FirstDiff(m.seq, m.con)})
		}
	}
	// overlap analysis
	sort.Slice(all, func(i, j int) bool { return all[i].t0 < all[j].t0 })
	pairs := map[string]bool{}
	sigs := map[string]bool{}
	for i, a := range all {
		var ov []string
		for j := i + 1; j < len(all) && all[j].t0 < a.t1; j++ {
			b := all[j]
			if b.g == a.g {
				continue
			}
			ov = append(ov, b.kind.String())
			if b.kind != a.kind {
				k1, k2 := a.kind.String(), b.kind.String()
				if k2 < k1 {
					k1, k2 = k2, k1
				}
				pairs[k1+" || "+k2] = true
				if resolved > 0 {
					rep.NonTrivial(cfg.Recipe.String() + "|" + k1 + "||" + k2)
				}
			}
		}
		if len(ov) > 0 {
			sort.Strings(ov)
			sigs[a.kind.String()+"<"+strings.Join(ov, ",")+">"] = true
		}
	}
	for s := range sigs {
		rep.Distinct("interleaving_signatures", fmt.Sprintf("%s|%d|%s", cfg.Recipe, cfg.Goroutines, hashStr(s)))
	}
	for pr := range pairs {
		rep.Distinct("overlapping_kind_pairs", pr)
	}
	rep.Sample(map[string]interface{}{"source": cfg.Recipe.String(), "goroutines": cfg.Goroutines, "gomaxprocs": cfg.Procs, "operations": len(all), "distinct_queries": len(qs),
		"overlapping_kind_pairs": len(pairs), "distinct_interleaving_signatures": len(sigs), "blocks_with_resolved_dependent_body": resolved, "race_detector": core.RaceEnabled})
}

func hashStr(s string) string {
	h := uint64(1469598103934665603)
	for i := 0; i < len(s); i++ {
		h = (h ^ uint64(s[i])) * 1099511628211
	}
	return fmt.Sprintf("%016x", h)
}

func init() { Register(c05{}) }
