package props

import (
	"encoding/json"
	"fmt"
	"io"
	"math/rand"
	"os"
	"os/exec"
	"reflect"
	"sort"
	"strings"

	"github.com/hashicorp/hcl-lang/lang"
	"github.com/hashicorp/hcl-lang/reference"
	"github.com/hashicorp/hcl/v2"
	"github.com/hashicorp/hcl/v2/hclsyntax"

	"verifharness/internal/core"
	"verifharness/internal/dump"
	"verifharness/internal/model"
	"verifharness/internal/runner"
)

// ---------------------------------------------------------------- shared helpers

// diffUnit is one (source, file state) pair of a differential property.
type diffUnit struct {
	Recipe Recipe   `json:"recipe"`
	Path   string   `json:"path"`
	File   string   `json:"file"`
	Mut    Mutation `json:"mutation"`
	// Extra parameters of the specific property
	Insert    int    `json:"insert_at,omitempty"`
	InsertTxt string `json:"insert_text,omitempty"`
	Kind      string `json:"query_kind,omitempty"`
	Byte      int    `json:"byte,omitempty"`
	Arg       string `json:"arg,omitempty"`
}

// diffStates lists a handful of file states per source: the base file plus a
// few seeded prefixes and token edits.
func diffStates(ws *core.Workspace, rnd *rand.Rand, nBroken int) []State {
	var out []State
	for _, path := range ws.Order {
		spec := ws.Paths[path]
		files := make([]string, 0, len(spec.Files))
		for f := range spec.Files {
			files = append(files, f)
		}
		sort.Strings(files)
		for _, f := range files {
			out = append(out, State{path, f, Mutation{Kind: "none"}})
			src := spec.Files[f]
			if core.IsJSON(f) || len(src) == 0 {
				continue
			}
			nt := NumTokens(src)
			if nBroken > 0 {
				// a prefix that ends right behind an opening bracket: unterminated calls /
				// collections are where parser recovery produces its oddest ranges
				var opens []int
				for i := 0; i < len(src); i++ {
					if src[i] == '(' || src[i] == '[' || src[i] == '{' {
						opens = append(opens, i+1)
					}
				}
				if len(opens) > 0 {
					out = append(out, State{path, f, Mutation{Kind: "prefix", A: opens[rnd.Intn(len(opens))]}})
				}
				// a file without any item and without a final newline: the root body is an
				// empty range at the end of the file
				out = append(out, State{path, f, Mutation{Kind: "text", Text: itemlessTexts[rnd.Intn(len(itemlessTexts))]}})
			}
			for i := 0; i < nBroken; i++ {
				switch i % 3 {
				case 0:
					out = append(out, State{path, f, Mutation{Kind: "prefix", A: rnd.Intn(len(src))}})
				case 1:
					out = append(out, State{path, f, Mutation{Kind: "tokdel", A: rnd.Intn(nt)}})
				default:
					out = append(out, State{path, f, Mutation{Kind: "tokrep", A: rnd.Intn(nt), Text: TokReplacements[rnd.Intn(len(TokReplacements))]}})
				}
			}
		}
	}
	return out
}

var itemlessTexts = []string{"", " ", "\t  ", "# only a comment", "/* x */", "// c", "\n\n  "}

// buildState builds the env of a state from a fresh recipe instance.
func buildState(rc Recipe, st State) (*core.Workspace, *core.Env, int) {
	return buildStateOpt(rc, st, true)
}

func buildStateOpt(rc Recipe, st State, collect bool) (*core.Workspace, *core.Env, int) {
	ws, err := rc.Make()
	if err != nil {
		return nil, nil, -1
	}
	spec := ws.Paths[st.Path]
	if spec == nil {
		return nil, nil, -1
	}
	orig, ok := spec.Files[st.File]
	if !ok {
		return nil, nil, -1
	}
	text, editAt := st.Mut.Apply(orig)
	spec.Files[st.File] = text
	return ws, ws.Build(collect), editAt
}

// queryList builds the list of queries for a state: all path and file level
// kinds plus positional kinds at nCursors seeded cursors (+ around editAt).
func queryList(env *core.Env, st State, rnd *rand.Rand, nCursors int, editAt int) []core.Query {
	var qs []core.Query
	for _, k := range core.PathKinds {
		qs = append(qs, core.Query{Kind: k, Path: st.Path})
	}
	for _, k := range core.FileKinds {
		qs = append(qs, core.Query{Kind: k, Path: st.Path, File: st.File})
	}
	qs = append(qs, core.Query{Kind: core.QWorkspaceSymbols, Arg: ""}, core.Query{Kind: core.QWorkspaceSymbols, Arg: "a"})
	tab := env.Tables[st.Path][st.File]
	if tab == nil {
		return qs
	}
	all := tab.Offsets()
	if len(all) == 0 {
		return qs
	}
	seen := map[int]bool{}
	var offs []int
	add := func(o int) {
		if !seen[o] {
			seen[o] = true
			offs = append(offs, o)
		}
	}
	if len(all) <= nCursors {
		for _, o := range all {
			add(o)
		}
	} else {
		for i := 0; i < nCursors; i++ {
			add(all[rnd.Intn(len(all))])
		}
	}
	if editAt >= 0 {
		for _, o := range all {
			if o >= editAt-6 && o <= editAt+2 {
				add(o)
			}
		}
	}
	// the very first and the very last position of the file
	add(all[0])
	add(all[len(all)-1])
	// stratified: a few cursors inside each kind of written element (uniform
	// offsets alone rarely land on the short ones, e.g. top-level labels)
	if pc := env.PathCtx[st.Path]; pc != nil && pc.Files[st.File] != nil {
		so := structuralOffsets(pc.Files[st.File])
		cats := make([]string, 0, len(so))
		for c := range so {
			cats = append(cats, c)
		}
		sort.Strings(cats)
		per := 1 + nCursors/10
		for _, c := range cats {
			l := so[c]
			for i := 0; i < per && i < len(l); i++ {
				o := l[rnd.Intn(len(l))]
				if _, ok := tab.At(o); ok {
					add(o)
				}
			}
		}
	}
	sort.Ints(offs)
	for _, o := range offs {
		pos, _ := tab.At(o)
		for _, k := range core.PositionalKinds {
			qs = append(qs, core.Query{Kind: k, Path: st.Path, File: st.File, Pos: pos})
		}
	}
	return qs
}

// canon renders a result for comparison. Diagnostics are compared as an
// unordered collection (C03 statement); everything else keeps its order.
func canon(q core.Query, r core.Result, o dump.Options) string {
	if r.Panic != nil {
		return "PANIC " + r.Panic.Sig
	}
	var sb strings.Builder
	sb.WriteString("err=")
	if r.Err != nil {
		// messages may embed positions; compare the type and, without a position map, the message
		if o.RangeMap != nil || o.PosMap != nil {
			sb.WriteString(fmt.Sprintf("%T", r.Err))
		} else {
			sb.WriteString(dump.Err(r.Err))
		}
	} else {
		sb.WriteString("nil")
	}
	sb.WriteString(" value=")
	switch v := r.Value.(type) {
	case hcl.Diagnostics:
		sb.WriteString(canonDiags(v, o))
	case lang.DiagnosticsMap:
		files := make([]string, 0, len(v))
		for f := range v {
			files = append(files, f)
		}
		sort.Strings(files)
		for _, f := range files {
			sb.WriteString(f + ":" + canonDiags(v[f], o) + ";")
		}
	default:
		sb.WriteString(dump.String(r.Value, o))
	}
	return sb.String()
}

func canonDiags(ds hcl.Diagnostics, o dump.Options) string {
	items := make([]string, 0, len(ds))
	for _, d := range ds {
		o2 := o
		o2.SkipField = func(t reflect.Type, f string) bool { return f == "Expression" || f == "EvalContext" || f == "Extra" }
		items = append(items, dump.String(d, o2))
	}
	sort.Strings(items)
	return fmt.Sprintf("diags[%d](%s)", len(items), strings.Join(items, ","))
}

func resultSize(r core.Result) int {
	v := reflect.ValueOf(r.Value)
	if !v.IsValid() {
		return 0
	}
	switch v.Kind() {
	case reflect.Slice, reflect.Map:
		return v.Len()
	case reflect.Struct:
		if c, ok := r.Value.(lang.Candidates); ok {
			return len(c.List)
		}
		return 1
	case reflect.Ptr:
		if v.IsNil() {
			return 0
		}
		return 1
	}
	return 1
}

// mapSizes reports the largest schema map size of a path (C03 evidence).
func maxSchemaMapSize(env *core.Env, path string) int {
	pc := env.PathCtx[path]
	if pc == nil || pc.Schema == nil {
		return 0
	}
	max := 0
	var walk func(v reflect.Value, depth int)
	seen := map[uintptr]bool{}
	walk = func(v reflect.Value, depth int) {
		if !v.IsValid() || depth > 12 {
			return
		}
		switch v.Kind() {
		case reflect.Ptr:
			if v.IsNil() || seen[v.Pointer()] {
				return
			}
			seen[v.Pointer()] = true
			walk(v.Elem(), depth+1)
		case reflect.Interface:
			if !v.IsNil() {
				walk(v.Elem(), depth+1)
			}
		case reflect.Struct:
			if strings.HasPrefix(v.Type().PkgPath(), "github.com/zclconf") {
				return
			}
			for i := 0; i < v.NumField(); i++ {
				walk(v.Field(i), depth+1)
			}
		case reflect.Map:
			if v.Len() > max {
				max = v.Len()
			}
			it := v.MapRange()
			for it.Next() {
				walk(it.Value(), depth+1)
			}
		case reflect.Slice:
			for i := 0; i < v.Len(); i++ {
				walk(v.Index(i), depth+1)
			}
		}
	}
	walk(reflect.ValueOf(pc.Schema), 0)
	return max
}

func diffSources(tier string, seed int64, nQuick, nThorough int) []Source {
	return streamSources(tier, seed, nQuick, nThorough)
}

// ---------------------------------------------------------------- C03

type c03 struct{}

func (c03) ID() string { return "C03" }
func (c03) Meta() Meta {
	return Meta{
		Level:       "exploration",
		Rule:        "differential monitor: every query (all entry points; seeded cursors) on a (source, file state) pair is executed (i) R times in a row on one decoder, (ii) again after a seeded sequence of 1-30 other queries, (iii) on a freshly rebuilt decoder/schema/files (new map objects), (iv) for multi-path workspaces in two FRESH PROCESSES that ask the paths in opposite order (process-wide caches must not make an answer depend on which path - with its own functions and schema - was asked first); (i) and (ii) use ONE PathDecoder per path for the whole sequence, so state kept on it is part of the history, and the canonical dumps must be identical (order kept for candidates, tokens, symbols, targets incl. nested, origins, lookups; diagnostics as multisets). Go re-randomises map iteration on every range statement, so every repetition samples new iteration orders. distinct non-trivial = distinct (source, state, query kind, cursor) whose result has >= 2 elements on a path whose schema has a map with >= 2 entries.",
		Assumptions: []string{"equality is equality of the canonical dump (unexported fields included, pointer identities excluded, funcs as set/nil)", "map iteration orders are sampled, not enumerated"},
		Floor:       map[string]int{"quick": 200, "thorough": 1000},
		CaseBudget:  120,
	}
}

func c03Params(tier string) (nGenQ, nGenT, reps, cursors, broken int) {
	if tier == "thorough" {
		return 40, 300, 40, 60, 6
	}
	return 40, 300, 10, 24, 3
}

func (p c03) NumUnits(tier string, seed int64) int {
	q, t, _, _, _ := c03Params(tier)
	return len(diffSources(tier, seed, q, t))
}

// Probe is the body of "vcheck probe <recipe-json> <fwd|rev>": in a process of
// its own it builds the workspace, asks a fixed list of queries path by path -
// paths in declared order (fwd) or reversed (rev) - and prints one line
// "<query>\t<hash of the canonical result>" per query. C03 compares the two
// outputs: whatever a process remembers beyond a Decoder (package-level caches)
// must not make an answer depend on which path was asked first.
func Probe(recipeJSON, order string, out io.Writer) error {
	var rc Recipe
	if err := json.Unmarshal([]byte(recipeJSON), &rc); err != nil {
		return err
	}
	ws, err := rc.Make()
	if err != nil {
		return err
	}
	env := ws.Build(true)
	paths := append([]string{}, ws.Order...)
	if order == "rev" {
		for i, j := 0, len(paths)-1; i < j; i, j = i+1, j-1 {
			paths[i], paths[j] = paths[j], paths[i]
		}
	}
	for _, path := range paths {
		for _, f := range env.SortedFiles(path) {
			rnd := rand.New(rand.NewSource(int64(len(path)*131 + len(f))))
			for _, q := range queryList(env, State{Path: path, File: f}, rnd, 40, -1) {
				if q.Kind == core.QWorkspaceSymbols {
					continue
				}
				fmt.Fprintf(out, "%s\t%016x\n", q.String(), dump.HashString(canon(q, env.Run(q), dump.Options{})))
			}
		}
	}
	return nil
}

// processOrderProbe runs Probe twice in fresh processes (fwd / rev) and compares.
func (p c03) processOrderProbe(rc Recipe, rep *runner.Reporter) {
	exe, err := os.Executable()
	if err != nil {
		return
	}
	rj := string(mustJSON(rc))
	run := func(order string) (map[string]string, bool) {
		cmd := exec.Command(exe, "probe", rj, order)
		b, err := cmd.Output()
		if err != nil {
			rep.Count("probe_process_failures", 1)
			return nil, false
		}
		m := map[string]string{}
		for _, l := range strings.Split(string(b), "\n") {
			if i := strings.LastIndex(l, "\t"); i > 0 {
				m[l[:i]] = l[i+1:]
			}
		}
		return m, true
	}
	fwd, ok1 := run("fwd")
	rev, ok2 := run("rev")
	if !ok1 || !ok2 {
		return
	}
	rep.Eval(int64(len(fwd) + len(rev)))
	rep.Count("fresh_process_order_probes", 1)
	keys := make([]string, 0, len(fwd))
	for k := range fwd {
		keys = append(keys, k)
	}
	sort.Strings(keys)
	reported := map[string]bool{}
	for _, k := range keys {
		if rev[k] != "" && rev[k] != fwd[k] {
			kind := strings.SplitN(k, " ", 2)[0]
			if reported[kind] {
				continue
			}
			reported[kind] = true
			rep.Violation(&runner.Witness{Sig: "NONDET " + kind + " depends-on-which-path-was-asked-first (fresh processes)", What: "the same query on the same inputs answers differently in two fresh processes that differ only in the order in which the paths of the workspace were asked",
				Unit: mustJSON(diffUnit{Recipe: rc, Kind: "probe"}), Query: k})
		}
	}
}

func (p c03) RunUnit(idx int, tier string, seed int64, focus map[string]string, rep *runner.Reporter) {
	q, t, reps, cursors, broken := c03Params(tier)
	srcs := diffSources(tier, seed, q, t)
	if idx >= len(srcs) {
		return
	}
	rc := srcs[idx].Recipe
	rnd := unitRand(seed, "C03", idx)
	base, err := rc.Make()
	if err != nil {
		return
	}
	if len(base.Order) >= 2 {
		p.processOrderProbe(rc, rep)
	}
	for sti, st := range diffStates(base, rnd, broken) {
		rep.Mark(idx, sti, -1, -1)
		p.runState(rc, st, reps, cursors, rnd, rep, nil)
	}
}

func (p c03) runState(rc Recipe, st State, reps, cursors int, rnd *rand.Rand, rep *runner.Reporter, only *diffUnit) {
	ws, envA, editAt := buildState(rc, st)
	if envA == nil {
		return
	}
	_, envB, _ := buildState(rc, st)
	qs := queryList(envA, st, rnd, cursors, editAt)
	if only != nil && only.Kind != "" {
		k, ok := core.QKindByName(only.Kind)
		if !ok {
			return
		}
		q := core.Query{Kind: k, Path: only.Path, File: only.File, Arg: only.Arg}
		if k.Positional() {
			if tab := envA.Tables[only.Path][only.File]; tab != nil {
				q.Pos = tab.Near(only.Byte)
			}
		}
		// keep the other queries as "history"
		qs = append([]core.Query{q}, qs...)
		reps *= 4
	}
	mapSize := maxSchemaMapSize(envA, st.Path)
	rep.Distinct("schema_map_sizes", fmt.Sprint(mapSize))
	o := dump.Options{}
	report := func(mode string, q core.Query, a, b string) {
		sig := fmt.Sprintf("NONDET %s %s", q.Kind, mode)
		w := &runner.Witness{Sig: sig, What: fmt.Sprintf("%s: %s yields different results for equal inputs", mode, q.Kind),
			Unit:  mustJSON(diffUnit{Recipe: rc, Path: st.Path, File: st.File, Mut: st.Mut, Kind: q.Kind.String(), Byte: q.Pos.Byte, Arg: q.Arg}),
			Files: filesOf(ws), Query: q.String(), Detail: dump.FirstDiff(a, b)}
		rep.Violation(w)
	}
	limit := len(qs)
	if only != nil && only.Kind != "" {
		limit = 1
	}
	for qi := 0; qi < limit; qi++ {
		q := qs[qi]
		r0 := envA.Run(q)
		ref := canon(q, r0, o)
		rep.Eval(1)
		distinct := map[string]bool{ref: true}
		// (i) repetitions; collectors and non-positional queries get the full R,
		// positional ones a third of it
		n := reps
		if q.Kind.Positional() {
			n = reps/3 + 1
		}
		for i := 0; i < n; i++ {
			s := canon(q, envA.Run(q), o)
			rep.Eval(1)
			if s != ref && !distinct[s] {
				distinct[s] = true
				report("repeat-on-same-decoder", q, ref, s)
			}
		}
		// (ii) after a seeded history of other queries
		hl := 1 + rnd.Intn(30)
		for i := 0; i < hl; i++ {
			envA.Run(qs[rnd.Intn(len(qs))])
		}
		rep.Eval(int64(hl))
		if s := canon(q, envA.Run(q), o); s != ref && !distinct[s] {
			distinct[s] = true
			report("after-history-of-other-queries", q, ref, s)
		}
		// (iii) fresh decoder
		if envB != nil {
			s := canon(q, envB.Run(q), o)
			rep.Eval(1)
			if s != ref && !distinct[s] {
				distinct[s] = true
				report("fresh-decoder", q, ref, s)
			}
		}
		rep.Count("comparisons", int64(n+2))
		rep.Distinct("distinct_outputs_per_query", fmt.Sprint(len(distinct)))
		if resultSize(r0) >= 2 && mapSize >= 2 {
			rep.NonTrivial(fmt.Sprintf("%s|%s|%s|%s|%d", rc, st.Mut, q.Kind, q.File, q.Pos.Byte))
			if rep.NumSamples() < 5 {
				rep.Sample(map[string]interface{}{"source": rc.String(), "state": st.Mut.String(), "query": q.String(), "result_elements": resultSize(r0), "repetitions": n + 2, "distinct_outputs": len(distinct), "largest_schema_map": mapSize})
			}
		}
	}
}

func (p c03) Replay(w *runner.Witness, rep *runner.Reporter) error {
	var u diffUnit
	if err := json.Unmarshal(w.Unit, &u); err != nil {
		return err
	}
	if u.Kind == "probe" {
		p.processOrderProbe(u.Recipe, rep)
		return nil
	}
	p.runState(u.Recipe, State{u.Path, u.File, u.Mut}, 40, 10, unitRand(w.Seed, "C03", 0), rep, &u)
	return nil
}

// ---------------------------------------------------------------- C04

type c04 struct{}

func (c04) ID() string { return "C04" }
func (c04) Meta() Meta {
	return Meta{
		Level:       "exploration",
		Rule:        "before/after monitor: a deep snapshot (canonical dump incl. unexported fields, function identities and the len..cap region of every slice) of everything reachable from the path contexts (schema tree with dependent bodies and constraints, parsed files and bytes, functions, collected targets and origins, validators) and the decoder context is hashed before and after a seeded batch of <= 200 queries of all kinds (including error-returning ones: unknown file, unreadable path, out-of-range positions); on a mismatch the batch is replayed on a fresh context with a snapshot after every query to find the offending call. Slices of the schema, targets and origins are given spare capacity first so that an append into caller-owned memory is visible. Cursors are the seeded uniform ones plus a stratified sample (a few inside each kind of written element: top-level/nested block type, label, attribute name, value start); all queries of a workspace go through one PathDecoder per path. distinct non-trivial = batches on a file with >= 1 block whose dependent body resolves and in which >= 3 distinct query kinds returned a non-empty result.",
		Assumptions: []string{"sharing of immutable-by-convention values (constraints, cty values) between derived and caller-owned schemas is not flagged - only observable modification is"},
		Floor:       map[string]int{"quick": 40, "thorough": 200},
		CaseBudget:  120,
	}
}

func c04Params(tier string) (nGenQ, nGenT, cursors, broken int) {
	if tier == "thorough" {
		return 40, 400, 60, 8
	}
	return 40, 400, 30, 3
}

func (p c04) NumUnits(tier string, seed int64) int {
	q, t, _, _ := c04Params(tier)
	return len(diffSources(tier, seed, q, t))
}

// snapshotTarget is what C04 snapshots.
type snapshotTarget struct {
	PathCtx map[string]interface{}
	Ctx     interface{}
}

func snapshot(env *core.Env) snapshotTarget {
	t := snapshotTarget{PathCtx: map[string]interface{}{}, Ctx: env.WS.Ctx}
	for p, pc := range env.PathCtx {
		t.PathCtx[p] = pc
	}
	return t
}

var snapOpts = dump.Options{CapScan: true, FuncIdentity: true}

// addSpareCapacity gives every settable slice reachable through pointers a
// capacity larger than its length.
func addSpareCapacity(v reflect.Value, seen map[uintptr]bool, depth int) {
	if !v.IsValid() || depth > 40 {
		return
	}
	switch v.Kind() {
	case reflect.Ptr:
		if v.IsNil() || seen[v.Pointer()] {
			return
		}
		seen[v.Pointer()] = true
		addSpareCapacity(v.Elem(), seen, depth+1)
	case reflect.Struct:
		pk := v.Type().PkgPath()
		if strings.HasPrefix(pk, "github.com/zclconf") || pk == "math/big" || strings.HasPrefix(pk, "github.com/hashicorp/hcl/v2") {
			return
		}
		for i := 0; i < v.NumField(); i++ {
			addSpareCapacity(v.Field(i), seen, depth+1)
		}
	case reflect.Map:
		it := v.MapRange()
		for it.Next() {
			addSpareCapacity(it.Value(), seen, depth+1)
		}
	case reflect.Slice:
		if v.IsNil() {
			return
		}
		if v.CanSet() && v.Type().Elem().Kind() != reflect.Uint8 {
			n := reflect.MakeSlice(v.Type(), v.Len(), v.Len()+3)
			reflect.Copy(n, v)
			v.Set(n)
		}
		for i := 0; i < v.Len(); i++ {
			addSpareCapacity(v.Index(i), seen, depth+1)
		}
	case reflect.Interface:
		if !v.IsNil() {
			addSpareCapacity(v.Elem(), seen, depth+1)
		}
	}
}

func prepareC04(env *core.Env) {
	seen := map[uintptr]bool{}
	for _, pc := range env.PathCtx {
		addSpareCapacity(reflect.ValueOf(pc.Schema), seen, 0)
		if pc.ReferenceTargets != nil {
			ts := make(reference.Targets, len(pc.ReferenceTargets), len(pc.ReferenceTargets)+4)
			copy(ts, pc.ReferenceTargets)
			pc.ReferenceTargets = ts
		}
		if pc.ReferenceOrigins != nil {
			os := make(reference.Origins, len(pc.ReferenceOrigins), len(pc.ReferenceOrigins)+4)
			for i, o := range pc.ReferenceOrigins {
				switch t := o.(type) {
				case reference.LocalOrigin:
					cs := make(reference.OriginConstraints, len(t.Constraints), len(t.Constraints)+3)
					copy(cs, t.Constraints)
					t.Constraints = cs
					os[i] = t
				case reference.PathOrigin:
					cs := make(reference.OriginConstraints, len(t.Constraints), len(t.Constraints)+3)
					copy(cs, t.Constraints)
					t.Constraints = cs
					os[i] = t
				default:
					os[i] = o
				}
			}
			pc.ReferenceOrigins = os
		}
	}
}

func (p c04) RunUnit(idx int, tier string, seed int64, focus map[string]string, rep *runner.Reporter) {
	q, t, cursors, broken := c04Params(tier)
	srcs := diffSources(tier, seed, q, t)
	if idx >= len(srcs) {
		return
	}
	rc := srcs[idx].Recipe
	rnd := unitRand(seed, "C04", idx)
	base, err := rc.Make()
	if err != nil {
		return
	}
	for sti, st := range diffStates(base, rnd, broken) {
		rep.Mark(idx, sti, -1, -1)
		p.runState(rc, st, cursors, rnd.Int63(), rep)
	}
}

// errorQueries are queries that must return errors (W8).
func errorQueries(st State) []core.Query {
	var qs []core.Query
	for _, k := range core.FileKinds {
		qs = append(qs, core.Query{Kind: k, Path: st.Path, File: "does-not-exist.tf"})
	}
	for _, k := range core.PositionalKinds {
		qs = append(qs, core.Query{Kind: k, Path: st.Path, File: st.File, Pos: hcl.Pos{Line: 9999, Column: 1, Byte: 1 << 20}})
		qs = append(qs, core.Query{Kind: k, Path: "/no/such/path", File: st.File, Pos: hcl.InitialPos})
	}
	qs = append(qs, core.Query{Kind: core.QValidate, Path: "/no/such/path"})
	return qs
}

func (p c04) runState(rc Recipe, st State, cursors int, bseed int64, rep *runner.Reporter) {
	rnd := rand.New(rand.NewSource(bseed))
	ws, env, editAt := buildStateOpt(rc, st, false)
	if env == nil {
		return
	}
	// The collectors are queries too: snapshot before anything has touched the
	// inputs, run them (results are installed by the harness afterwards, as a
	// language server does), snapshot again.
	prepareC04(env)
	for _, cq := range []core.QKind{core.QCollectTargets, core.QCollectOrigins} {
		before := dump.Hash(snapshot(env), snapOpts)
		for _, path := range ws.Order {
			env.Run(core.Query{Kind: cq, Path: path})
		}
		rep.Eval(int64(len(ws.Order)))
		if dump.Hash(snapshot(env), snapOpts) != before {
			_, env2, _ := buildStateOpt(rc, st, false)
			prepareC04(env2)
			prev := dump.String(snapshot(env2), snapOpts)
			for _, path := range ws.Order {
				q := core.Query{Kind: cq, Path: path}
				env2.Run(q)
				cur := dump.String(snapshot(env2), snapOpts)
				if cur != prev {
					rep.Violation(&runner.Witness{Sig: fmt.Sprintf("MUTATION by %s of %s", q.Kind, mutatedWhat(prev, cur)), What: fmt.Sprintf("%s modified the caller-supplied inputs (first query on fresh inputs)", q.Kind),
						Unit:  mustJSON(diffUnit{Recipe: rc, Path: path, File: st.File, Mut: st.Mut, Kind: q.Kind.String()}),
						Files: filesOf(ws), Query: q.String(), Detail: dump.FirstDiff(prev, cur)})
					prev = cur
				}
			}
		}
	}
	env.Collect()
	prepareC04(env)
	qs := queryList(env, st, rnd, cursors, editAt)
	qs = append(qs, errorQueries(st)...)
	rnd.Shuffle(len(qs), func(i, j int) { qs[i], qs[j] = qs[j], qs[i] })
	resolved := resolvedDependentBlocks(env, st)
	for lo := 0; lo < len(qs); lo += 200 {
		hi := lo + 200
		if hi > len(qs) {
			hi = len(qs)
		}
		batch := qs[lo:hi]
		h0 := dump.Hash(snapshot(env), snapOpts)
		kindsNonEmpty := map[core.QKind]bool{}
		for _, q := range batch {
			r := env.Run(q)
			if r.Panic == nil && resultSize(r) > 0 {
				kindsNonEmpty[q.Kind] = true
			}
		}
		rep.Eval(int64(len(batch)))
		rep.Count("batches", 1)
		h1 := dump.Hash(snapshot(env), snapOpts)
		if resolved > 0 && len(kindsNonEmpty) >= 3 {
			rep.NonTrivial(fmt.Sprintf("%s|%s|%s|%d", rc, st.File, st.Mut, lo))
			if rep.NumSamples() < 5 {
				rep.Sample(map[string]interface{}{"source": rc.String(), "state": st.Mut.String(), "batch_queries": len(batch), "kinds_with_results": len(kindsNonEmpty), "blocks_with_resolved_dependent_body": resolved, "snapshot_hash_before": fmt.Sprintf("%016x", h0), "snapshot_hash_after": fmt.Sprintf("%016x", h1)})
			}
		}
		if h0 == h1 {
			continue
		}
		// find the culprit on a fresh context
		_, env2, _ := buildState(rc, st)
		prepareC04(env2)
		prev := dump.String(snapshot(env2), snapOpts)
		found := false
		for _, q := range batch {
			env2.Run(q)
			cur := dump.String(snapshot(env2), snapOpts)
			if cur != prev {
				found = true
				sig := fmt.Sprintf("MUTATION by %s of %s", q.Kind, mutatedWhat(prev, cur))
				rep.Violation(&runner.Witness{Sig: sig, What: fmt.Sprintf("%s modified the caller-supplied inputs", q.Kind),
					Unit:  mustJSON(diffUnit{Recipe: rc, Path: st.Path, File: st.File, Mut: st.Mut, Kind: q.Kind.String(), Byte: q.Pos.Byte, Arg: q.Arg}),
					Files: filesOf(ws), Query: q.String(), Detail: dump.FirstDiff(prev, cur)})
				prev = cur
			}
		}
		if !found {
			rep.Violation(&runner.Witness{Sig: "MUTATION by batch (not attributable to a single query)", What: "snapshot hash changed across a batch but no single query reproduces it on a fresh context",
				Unit: mustJSON(diffUnit{Recipe: rc, Path: st.Path, File: st.File, Mut: st.Mut}), Files: filesOf(ws)})
		}
	}
}

// mutatedWhat names the top-level part of the snapshot that changed.
func mutatedWhat(a, b string) string {
	n := len(a)
	if len(b) < n {
		n = len(b)
	}
	i := 0
	for i < n && a[i] == b[i] {
		i++
	}
	pre := a[:i]
	// last field names before the difference
	fields := []string{"Schema:", "ReferenceOrigins:", "ReferenceTargets:", "Files:", "Functions:", "Validators:", "Ctx:"}
	best, bi := "?", -1
	for _, f := range fields {
		if j := strings.LastIndex(pre, f); j > bi {
			bi, best = j, strings.TrimSuffix(f, ":")
		}
	}
	return best
}

// resolvedDependentBlocks counts top-level blocks whose dependent body resolves.
func resolvedDependentBlocks(env *core.Env, st State) int {
	pc := env.PathCtx[st.Path]
	if pc == nil || pc.Schema == nil {
		return 0
	}
	f := pc.Files[st.File]
	if f == nil {
		return 0
	}
	n := 0
	content, _, _ := f.Body.PartialContent(pc.Schema.ToHCLSchema())
	if content == nil {
		return 0
	}
	for _, b := range content.Blocks {
		bs := pc.Schema.Blocks[b.Type]
		if bs == nil || len(bs.DependentBody) == 0 {
			continue
		}
		if _, res := core.EffectiveBodySchema(b, bs); res == 1 || res == 2 {
			n++
		}
	}
	return n
}

func (p c04) Replay(w *runner.Witness, rep *runner.Reporter) error {
	var u diffUnit
	if err := json.Unmarshal(w.Unit, &u); err != nil {
		return err
	}
	st := State{u.Path, u.File, u.Mut}
	collected := u.Kind != core.QCollectTargets.String() && u.Kind != core.QCollectOrigins.String()
	ws, env, _ := buildStateOpt(u.Recipe, st, collected)
	if env == nil {
		return fmt.Errorf("cannot rebuild")
	}
	prepareC04(env)
	k, ok := core.QKindByName(u.Kind)
	if !ok {
		p.runState(u.Recipe, st, 60, w.Seed, rep)
		return nil
	}
	q := core.Query{Kind: k, Path: u.Path, File: u.File, Arg: u.Arg}
	if k.Positional() {
		if tab := env.Tables[u.Path][u.File]; tab != nil {
			q.Pos = tab.Near(u.Byte)
		}
	}
	prev := dump.String(snapshot(env), snapOpts)
	env.Run(q)
	cur := dump.String(snapshot(env), snapOpts)
	if prev != cur {
		rep.Violation(&runner.Witness{Sig: fmt.Sprintf("MUTATION by %s of %s", q.Kind, mutatedWhat(prev, cur)), What: "reproduced", Unit: w.Unit, Files: filesOf(ws), Detail: dump.FirstDiff(prev, cur)})
	}
	return nil
}

// ---------------------------------------------------------------- C18

type c18 struct{}

func (c18) ID() string { return "C18" }
func (c18) Meta() Meta {
	return Meta{
		Level:       "exploration",
		Rule:        "metamorphic monitor: k in {1,2,5,12,30} lines of {blank, '# ...', '// ...', multi-byte comment, comment containing { , = ( \" ${} are inserted before a top-level item or appended after the last one; both files go through the real collectors; every query (all kinds, seeded cursors moved correspondingly) on the translated file must equal the result on the original once every position in the edited file is mapped back (b < I unchanged; b >= I+db -> line-dl, byte-db; a position inside the inserted text is itself a violation). Besides the complete files, editing states are translated: a partially typed top-level name on a line of its own in front of an item (the first item of the file included), with the lines inserted directly above it and the cursors on every byte of the typed name; and an item of a map whose value is not typed yet (\"k = \"), asked before and after 3/12/30 lines are inserted at the very top of the file (small and large absolute offsets). distinct non-trivial = comparisons whose result holds >= 1 position at or after the insertion point.",
		Assumptions: []string{"the cursor exactly at the insertion point is skipped (ambiguous side)", "error values are compared by dynamic type only (messages embed positions)"},
		Floor:       map[string]int{"quick": 300, "thorough": 2000},
		CaseBudget:  120,
	}
}

func c18Params(tier string) (nGenQ, nGenT, cursors, inserts int) {
	if tier == "thorough" {
		return 40, 400, 120, 40
	}
	return 40, 400, 40, 15
}

func (p c18) NumUnits(tier string, seed int64) int {
	q, t, _, _ := c18Params(tier)
	return len(diffSources(tier, seed, q, t))
}

var insertLines = []string{"", "# plain comment", "// slash comment", "# комментарий — ✓ 日本語 🚀", "# tricky { , = ( \" ${ } [", "  ", "/* block comment */"}

// topLevelInsertPoints returns line-start byte offsets before each top-level
// item and the end of file.
func topLevelInsertPoints(env *core.Env, path, file string, src string) []int {
	var pts []int
	pc := env.PathCtx[path]
	if pc == nil || pc.Files[file] == nil {
		return nil
	}
	starts := map[int]bool{}
	for _, r := range topLevelItemRanges(pc.Files[file]) {
		// move to the start of the line
		b := r.Start.Byte
		for b > 0 && src[b-1] != '\n' {
			b--
		}
		// only if the item starts its line (nothing but blanks before it)
		if strings.TrimSpace(src[b:r.Start.Byte]) == "" {
			starts[b] = true
		}
	}
	for b := range starts {
		pts = append(pts, b)
	}
	if len(src) > 0 && src[len(src)-1] == '\n' {
		pts = append(pts, len(src))
	}
	sort.Ints(pts)
	return pts
}

func (p c18) RunUnit(idx int, tier string, seed int64, focus map[string]string, rep *runner.Reporter) {
	q, t, cursors, inserts := c18Params(tier)
	typed := 2
	if tier == "thorough" {
		typed = 6
	}
	srcs := diffSources(tier, seed, q, t)
	if idx >= len(srcs) {
		return
	}
	rc := srcs[idx].Recipe
	if rc.Kind == "fixture" && rc.Name == "tf-twins" {
		return // positions are mapped by file name, which is not unique there
	}
	rnd := unitRand(seed, "C18", idx)
	base, err := rc.Make()
	if err != nil {
		return
	}
	states := diffStates(base, rnd, 0)
	for sti, st := range states {
		if core.IsJSON(st.File) {
			continue
		}
		_, env0, _ := buildState(rc, st)
		if env0 == nil {
			continue
		}
		src := env0.WS.Paths[st.Path].Files[st.File]
		pts := topLevelInsertPoints(env0, st.Path, st.File, src)
		if len(pts) == 0 {
			continue
		}
		// insertion points and line counts are covered round-robin (every point gets
		// every line count before any repeats), the line contents are seeded
		rnd.Shuffle(len(pts), func(a, b int) { pts[a], pts[b] = pts[b], pts[a] })
		ks := []int{1, 12, 2, 30, 5}
		for i := 0; i < inserts; i++ {
			at := pts[(i/len(ks))%len(pts)]
			k := ks[i%len(ks)]
			var sb strings.Builder
			nl := "\n"
			if strings.Contains(src, "\r\n") {
				nl = "\r\n"
			}
			for j := 0; j < k; j++ {
				sb.WriteString(insertLines[rnd.Intn(len(insertLines))] + nl)
			}
			rep.Mark(idx, sti, at, i)
			p.compare(rc, st, at, sb.String(), cursors, rnd, rep, nil)
		}
		// editing states: a partially typed name on a line of its own in front of a
		// top-level item (the first one included), then lines inserted above it /
		// elsewhere; the cursors include the bytes of the typed name
		var names []string
		if pc := env0.PathCtx[st.Path]; pc != nil && pc.Schema != nil {
			for n := range pc.Schema.Blocks {
				names = append(names, n)
			}
			for n := range pc.Schema.Attributes {
				names = append(names, n)
			}
			sort.Strings(names)
		}
		if len(names) == 0 {
			names = []string{"x"}
		}
		sort.Ints(pts)
		nl := "\n"
		if strings.Contains(src, "\r\n") {
			nl = "\r\n"
		}
		for ti := 0; ti < typed; ti++ {
			a := pts[0]
			if ti > 0 {
				a = pts[rnd.Intn(len(pts))]
			}
			name := names[rnd.Intn(len(names))]
			part := name[:1+rnd.Intn(len(name))]
			tst := State{st.Path, st.File, Mutation{Kind: "insert", A: a, Text: part + nl}}
			_, envT, _ := buildState(rc, tst)
			if envT == nil {
				continue
			}
			srcT := envT.WS.Paths[st.Path].Files[st.File]
			ptsT := append([]int{a}, topLevelInsertPoints(envT, st.Path, st.File, srcT)...)
			for i := 0; i < 3; i++ {
				at := a // directly above the typed line
				if i == 2 {
					at = ptsT[rnd.Intn(len(ptsT))]
				}
				var sb strings.Builder
				for j, k := 0, []int{1, 3, 12}[i]; j < k; j++ {
					sb.WriteString(insertLines[rnd.Intn(len(insertLines))] + nl)
				}
				rep.Mark(idx, sti, at, 1000+ti*10+i)
				rep.Count("typed_name_states", 1)
				p.compare(rc, tst, at, sb.String(), cursors/2, rnd, rep, nil)
			}
		}
		// editing states inside a map: the value of an item has not been typed yet
		// ("k = " at the end of its line); lines are inserted at the very top of the file, so
		// that the same recovery state is asked at small and at large absolute offsets
		if pc := env0.PathCtx[st.Path]; pc != nil && pc.Schema != nil {
			if body0, ok := pc.Files[st.File].Body.(*hclsyntax.Body); ok {
				var sites []valueSite
				valueSites(body0, model.EffRoot(pc.Schema), &sites)
				sort.Slice(sites, func(i, j int) bool { return sites[i].attr.SrcRange.Start.Byte < sites[j].attr.SrcRange.Start.Byte })
				done := 0
				for _, vs := range sites {
					var maps []governedMap
					governedMaps(vs.attr.Expr, vs.schema.Constraint, 0, &maps)
					for _, gm := range maps {
						if done >= typed || len(gm.oc.Items) == 0 {
							break
						}
						it := gm.oc.Items[len(gm.oc.Items)-1]
						vr := it.ValueExpr.Range()
						if vr.Start.Line != vr.End.Line || vr.End.Byte > len(src) || gm.oc.SrcRange.Start.Line == vr.Start.Line {
							continue
						}
						done++
						// remove the value: "k = v" -> "k = "
						text0 := src[:vr.Start.Byte] + src[vr.End.Byte:]
						for i, k := range []int{3, 12, 30} {
							var sb strings.Builder
							for j := 0; j < k; j++ {
								sb.WriteString(insertLines[rnd.Intn(len(insertLines))] + nl)
							}
							rep.Mark(idx, sti, vr.Start.Byte, 2000+done*10+i)
							rep.Count("map_item_editing_states", 1)
							p.compareTexts(rc, st, text0, 0, sb.String(), vr.Start.Byte, rep)
						}
					}
				}
			}
		}
	}
}

func (p c18) compare(rc Recipe, st State, at int, ins string, cursors int, rnd *rand.Rand, rep *runner.Reporter, only *diffUnit) {
	ws0, env0, _ := buildState(rc, st)
	if env0 == nil {
		return
	}
	st1 := st
	editAt := -1
	switch st.Mut.Kind {
	case "none", "":
		st1.Mut = Mutation{Kind: "insert", A: at, Text: ins}
	case "insert":
		if st.Mut.Text2 != "" {
			return
		}
		st1.Mut = Mutation{Kind: "insert", A: st.Mut.A, Text: st.Mut.Text, B: at, Text2: ins}
		editAt = st.Mut.A + len(strings.TrimRight(st.Mut.Text, "\r\n"))
	default:
		return
	}
	ws1, env1, _ := buildState(rc, st1)
	if env1 == nil {
		return
	}
	db := len(ins)
	dl := strings.Count(ins, "\n")
	tab0 := env0.Tables[st.Path][st.File]
	tab1 := env1.Tables[st.Path][st.File]
	if tab0 == nil || tab1 == nil {
		return
	}
	// the root body's own start position is defined by the parser (it lies behind a
	// leading inline comment): it is mapped to the original root body's start
	var rootStart0, rootStart1 hcl.Pos
	if b0, ok := env0.PathCtx[st.Path].Files[st.File].Body.(*hclsyntax.Body); ok {
		rootStart0 = b0.Range().Start
	}
	if b1, ok := env1.PathCtx[st.Path].Files[st.File].Body.(*hclsyntax.Body); ok {
		rootStart1 = b1.Range().Start
	}
	inserted := false
	mapPos := func(pp hcl.Pos) hcl.Pos {
		if pp == rootStart1 {
			return rootStart0
		}
		switch {
		case pp.Byte < at:
			return pp
		case pp.Byte >= at+db:
			return hcl.Pos{Line: pp.Line - dl, Column: pp.Column, Byte: pp.Byte - db}
		default:
			// a position at the insertion point itself may legitimately be the
			// end of something that ended there (only when == at)
			if pp.Byte == at {
				return pp
			}
			inserted = true
			return hcl.Pos{Line: -1, Column: -1, Byte: -1}
		}
	}
	o1 := dump.Options{RangeMap: func(r hcl.Range) hcl.Range {
		if r.Filename != st.File {
			return r
		}
		return hcl.Range{Filename: r.Filename, Start: mapPos(r.Start), End: mapPos(r.End)}
	}, PosMap: mapPos}
	// identity map on the original so that both sides use the same rendering path
	o0 := dump.Options{RangeMap: func(r hcl.Range) hcl.Range { return r }, PosMap: func(p hcl.Pos) hcl.Pos { return p }}
	qs := queryList(env0, st, rnd, cursors, editAt)
	if only != nil && only.Kind != "" {
		k, ok := core.QKindByName(only.Kind)
		if !ok {
			return
		}
		q := core.Query{Kind: k, Path: only.Path, File: only.File, Arg: only.Arg}
		if k.Positional() {
			q.Pos = tab0.Near(only.Byte)
		}
		qs = []core.Query{q}
	}
	for _, q0 := range qs {
		q1 := q0
		if q0.Kind.Positional() {
			if q0.Pos.Byte == at {
				continue
			}
			if q0.Pos.Byte > at {
				np, ok := tab1.At(q0.Pos.Byte + db)
				if !ok {
					continue
				}
				q1.Pos = np
			}
		}
		r0 := env0.Run(q0)
		r1 := env1.Run(q1)
		rep.Eval(2)
		inserted = false
		s0 := canon(q0, r0, o0)
		s1 := canon(q1, r1, o1)
		if s0 != s1 {
			side := "before-insertion"
			if q0.Pos.Byte > at {
				side = "after-insertion"
			}
			if !q0.Kind.Positional() {
				side = "whole-file"
			}
			sig := fmt.Sprintf("SHIFT %s %s", q0.Kind, side)
			if inserted {
				sig += " position-inside-inserted-text"
			}
			rep.Violation(&runner.Witness{Sig: sig, What: fmt.Sprintf("%s: result on the translated file differs from the result on the original beyond the position shift (insert %d bytes / %d lines at byte %d)", q0.Kind, db, dl, at),
				Unit:  mustJSON(diffUnit{Recipe: rc, Path: st.Path, File: st.File, Mut: st.Mut, Insert: at, InsertTxt: ins, Kind: q0.Kind.String(), Byte: q0.Pos.Byte, Arg: q0.Arg}),
				Files: filesOf(ws0), Query: q0.String(), Detail: "translated file:\n" + trunc(ws1.Paths[st.Path].Files[st.File], 1500) + "\n\n" + dump.FirstDiff(s0, s1)})
		}
		rep.Count("comparisons", 1)
		// non-trivial: result mentions a position at or after the insertion point
		if hasPosAfter(r0, st.File, at) {
			rep.NonTrivial(fmt.Sprintf("%s|%s|%d|%s|%d|%d", rc, st.File, at, q0.Kind, q0.Pos.Byte, len(ins)))
			if rep.NumSamples() < 5 {
				rep.Sample(map[string]interface{}{"source": rc.String(), "file": st.File, "inserted_at_byte": at, "inserted_text": ins, "query": q0.String(), "moved_query": q1.String()})
			}
		}
	}
}

// compareTexts asks completion and hover at one cursor of an explicit text and at the moved
// cursor of the same text with lines inserted at byte `at`; the answers must agree up to the shift.
func (p c18) compareTexts(rc Recipe, st State, text0 string, at int, ins string, cursor int, rep *runner.Reporter) {
	mk := func(text string) *core.Env {
		ws, err := rc.Make()
		if err != nil {
			return nil
		}
		ws.Paths[st.Path].Files[st.File] = text
		return ws.Build(true)
	}
	text1 := text0[:at] + ins + text0[at:]
	env0, env1 := mk(text0), mk(text1)
	if env0 == nil || env1 == nil {
		return
	}
	db, dl := len(ins), strings.Count(ins, "\n")
	tab0, tab1 := env0.Tables[st.Path][st.File], env1.Tables[st.Path][st.File]
	if tab0 == nil || tab1 == nil {
		return
	}
	mapPos := func(pp hcl.Pos) hcl.Pos {
		if pp.Byte < at {
			return pp
		}
		if pp.Byte >= at+db {
			return hcl.Pos{Line: pp.Line - dl, Column: pp.Column, Byte: pp.Byte - db}
		}
		return pp
	}
	o1 := dump.Options{RangeMap: func(r hcl.Range) hcl.Range {
		if r.Filename != st.File {
			return r
		}
		return hcl.Range{Filename: r.Filename, Start: mapPos(r.Start), End: mapPos(r.End)}
	}, PosMap: mapPos}
	o0 := dump.Options{RangeMap: func(r hcl.Range) hcl.Range { return r }, PosMap: func(p hcl.Pos) hcl.Pos { return p }}
	p0, ok0 := tab0.At(cursor)
	p1, ok1 := tab1.At(cursor + db)
	if !ok0 || !ok1 {
		return
	}
	for _, k := range []core.QKind{core.QCompletion, core.QCompletionPrefill, core.QHover} {
		q0 := core.Query{Kind: k, Path: st.Path, File: st.File, Pos: p0}
		q1 := q0
		q1.Pos = p1
		r0, r1 := env0.Run(q0), env1.Run(q1)
		rep.Eval(2)
		if s0, s1 := canon(q0, r0, o0), canon(q1, r1, o1); s0 != s1 {
			rep.Violation(&runner.Witness{Sig: fmt.Sprintf("SHIFT %s editing-state-in-map", k), What: fmt.Sprintf("%s at an item of a map whose value is not typed yet: the answer differs when %d bytes / %d lines are inserted at the top of the file", k, db, dl),
				Unit:  mustJSON(diffUnit{Recipe: rc, Path: st.Path, File: st.File, Mut: Mutation{Kind: "text", Text: text0}, Insert: at, InsertTxt: ins, Kind: k.String(), Byte: cursor}),
				Files: map[string]string{st.Path + "/" + st.File: text0}, Query: q0.String(), Detail: dump.FirstDiff(s0, s1)})
		}
		rep.NonTrivial(fmt.Sprintf("mapitem|%s|%s|%d|%s|%d", rc, st.File, cursor, k, len(ins)))
	}
}

func hasPosAfter(r core.Result, file string, at int) bool {
	found := false
	w := postabWalker(func(rg hcl.Range) {
		if rg.Filename == file && rg.End.Byte >= at {
			found = true
		}
	})
	w.Walk(r.Value)
	return found
}

func (p c18) Replay(w *runner.Witness, rep *runner.Reporter) error {
	var u diffUnit
	if err := json.Unmarshal(w.Unit, &u); err != nil {
		return err
	}
	if u.Mut.Kind == "text" {
		p.compareTexts(u.Recipe, State{Path: u.Path, File: u.File}, u.Mut.Text, u.Insert, u.InsertTxt, u.Byte, rep)
		return nil
	}
	p.compare(u.Recipe, State{u.Path, u.File, u.Mut}, u.Insert, u.InsertTxt, 10, unitRand(w.Seed, "C18", 0), rep, &u)
	return nil
}

func init() {
	Register(c03{})
	Register(c04{})
	Register(c18{})
}
