package props

import (
	"fmt"
	"math/rand"
	"net/url"
	"sort"
	"strings"

	"github.com/hashicorp/hcl-lang/lang"
	"github.com/hashicorp/hcl-lang/reference"
	"github.com/hashicorp/hcl-lang/schema"
	"github.com/hashicorp/hcl/v2"
	"github.com/hashicorp/hcl/v2/hclsyntax"
	"github.com/zclconf/go-cty/cty"

	"verifharness/internal/core"
	"verifharness/internal/gen"
	"verifharness/internal/model"
	"verifharness/internal/runner"
)

// C16: dependent-body selection is canonical.

type c16 struct{}

func (c16) ID() string { return "C16" }
func (c16) Meta() Meta {
	return Meta{
		Level:       "exploration",
		Rule:        "(a) keys: generated dependency key sets (<= 5 keys; label values, attribute values as string / number in int and float form of the same value / bool / reference address) - for EVERY permutation of each set (exhaustive, <= 120 each) NewSchemaKey must be the same, and over all generated sets two different sets never share a key (pairwise, by grouping); (b) agreement: on generated and fixture configurations every block is walked with the model's effective schema (M-eff: static + dependent body found by the model's own order-free key lookup, second level by attributes of the first); the decoder's own effective schema (hook VerifEffectiveBodySchema) must hold the same attribute/block names, and the marker attributes of the selected dependent body must be seen alike by completion (typed prefix 'dep_' on a fresh line of the block), hover, semantic tokens, reference origins and validation - all or none; (d) JSON: for generated JSON-expressible configurations with dependent bodies the decoder's effective body schema (hook) of every top-level block must hold the same names for the native and for the JSON rendering; (c) links: LinksInFile must equal one link per key label / written key attribute of each top-level block whose selected body has a DocsLink. distinct non-trivial = (source, block) pairs whose dependent body resolves, keyed by lookup outcome and key sources (label/literal/default/reference).",
		Assumptions: []string{"a key set holds one value per label index / attribute name (no duplicates)", "links of nested blocks are not required (the decoder only links top-level blocks)", "unknown/null static values are not a value form the property lists"},
		Floor:       map[string]int{"quick": 30, "thorough": 100},
		CaseBudget:  60,
	}
}

func c16Params(tier string) (keySetsPerUnit, keyUnits, nGenQ, nGenT int) {
	if tier == "thorough" {
		return 4000, 16, 300, 4000
	}
	return 1500, 16, 300, 4000
}

func (p c16) sources(tier string, seed int64) []Source {
	_, _, q, t := c16Params(tier)
	var out []Source
	for _, s := range diffSources(tier, seed, q, t) {
		out = append(out, s)
	}
	return out
}

func (p c16) NumUnits(tier string, seed int64) int {
	_, ku, _, _ := c16Params(tier)
	return ku + len(p.sources(tier, seed)) + c16JSONUnits(tier)
}

func (p c16) RunUnit(idx int, tier string, seed int64, focus map[string]string, rep *runner.Reporter) {
	n, ku, _, _ := c16Params(tier)
	if idx < ku {
		p.keys(idx, n, unitRand(seed, "C16", idx), rep)
		return
	}
	srcs := p.sources(tier, seed)
	if idx-ku < len(srcs) {
		rc := srcs[idx-ku].Recipe
		p.agreement(idx, rc, rep)
		return
	}
	p.jsonAgreement(idx, seed*100000+int64(idx), rep)
}

func c16JSONUnits(tier string) int {
	if tier == "thorough" {
		return 4000
	}
	return 400
}

// (d) the same configuration in JSON syntax selects the same body: for every top-level
// block of a generated JSON-expressible configuration the decoder's effective body schema
// (hook) of the native block and of the JSON block must hold the same names.
func (p c16) jsonAgreement(unit int, gseed int64, rep *runner.Reporter) {
	opt := "simple,deps"
	nat := gen.Build(gseed, opt)
	js, ok := gen.BuildJSON(gseed, opt)
	if !ok {
		return
	}
	envN, envJ := nat.WS.Build(false), js.WS.Build(false)
	pcN, pcJ := envN.PathCtx[gen.GenPath], envJ.PathCtx[gen.GenPath]
	if pcN == nil || pcJ == nil || pcN.Schema == nil || pcN.Files["main.tf"] == nil || pcJ.Files["main.tf.json"] == nil {
		return
	}
	bodyN, ok := pcN.Files["main.tf"].Body.(*hclsyntax.Body)
	if !ok {
		return
	}
	// the JSON body is decoded with the root schema's block types and label names
	hs := &hcl.BodySchema{}
	var types []string
	for t := range pcJ.Schema.Blocks {
		types = append(types, t)
	}
	sort.Strings(types)
	for _, t := range types {
		bh := hcl.BlockHeaderSchema{Type: t}
		for _, l := range pcJ.Schema.Blocks[t].Labels {
			bh.LabelNames = append(bh.LabelNames, l.Name)
		}
		hs.Blocks = append(hs.Blocks, bh)
	}
	contentJ, _, _ := pcJ.Files["main.tf.json"].Body.PartialContent(hs)
	if contentJ == nil {
		return
	}
	names := func(b *hcl.Block, bs *schema.BlockSchema) (string, int) {
		eff, res := core.EffectiveBodySchema(b, bs)
		if eff == nil {
			return "<nil>", res
		}
		var out []string
		for n := range eff.Attributes {
			out = append(out, "attr:"+n)
		}
		for n := range eff.Blocks {
			out = append(out, "block:"+n)
		}
		sort.Strings(out)
		return strings.Join(out, ","), res
	}
	type seen struct {
		names string
		res   int
	}
	byKeyJ := map[string][]seen{}
	for _, b := range contentJ.Blocks {
		bs := pcJ.Schema.Blocks[b.Type]
		if bs == nil {
			continue
		}
		k := b.Type + "|" + strings.Join(b.Labels, "|")
		n, r := names(b, bs)
		byKeyJ[k] = append(byKeyJ[k], seen{n, r})
	}
	used := map[string]int{}
	for _, sb := range bodyN.Blocks {
		bs := pcN.Schema.Blocks[sb.Type]
		if bs == nil || len(bs.DependentBody) == 0 {
			continue
		}
		k := sb.Type + "|" + strings.Join(sb.Labels, "|")
		i := used[k]
		used[k]++
		if i >= len(byKeyJ[k]) {
			continue
		}
		rep.Mark(unit, sb.Range().Start.Byte, -5, -1)
		nn, rn := names(sb.AsHCLBlock(), bs)
		rep.Eval(2)
		rep.Count("json_native_block_pairs", 1)
		j := byKeyJ[k][i]
		if rn == 1 || rn == 2 {
			rep.NonTrivial(fmt.Sprintf("json|%d|%s", gseed, k))
		}
		if nn != j.names {
			rep.Violation(&runner.Witness{Sig: fmt.Sprintf("EFFECTIVE-SCHEMA json-differs-from-native native-lookup=%d json-lookup=%d", rn, j.res),
				What:  fmt.Sprintf("block %s %v: the effective body schema selected for the JSON rendering differs from the one selected for the native rendering of the same block", sb.Type, sb.Labels),
				Unit:  mustJSON(map[string]interface{}{"gen_seed": gseed, "opt": opt, "json": true}),
				Files: map[string]string{"/gen/main.tf": nat.Src, "/gen/main.tf.json": js.Src}, Expected: "native: " + nn, Observed: "json:   " + j.names})
		}
	}
}

// ---------------------------------------------------------------- (a) keys

func genKeySet(r *rand.Rand) schema.DependencyKeys {
	dk := schema.DependencyKeys{}
	n := 1 + r.Intn(5)
	nl := r.Intn(n + 1)
	if nl > 3 {
		nl = 3
	}
	idxs := r.Perm(4)
	for i := 0; i < nl; i++ {
		dk.Labels = append(dk.Labels, schema.LabelDependent{Index: idxs[i], Value: []string{"a", "b", "aws", "a b", "é", ""}[r.Intn(6)]})
	}
	names := r.Perm(6)
	for i := 0; i < n-nl; i++ {
		name := fmt.Sprintf("attr%d", names[i])
		var ev schema.ExpressionValue
		switch r.Intn(6) {
		case 0:
			ev.Static = cty.StringVal([]string{"x", "1", "true", "a.b", ""}[r.Intn(5)])
		case 1:
			ev.Static = cty.NumberIntVal(int64(r.Intn(3)))
		case 2:
			ev.Static = cty.NumberFloatVal(float64(r.Intn(3)))
		case 3:
			ev.Static = cty.BoolVal(r.Intn(2) == 0)
		case 4:
			ev.Address = lang.Address{lang.RootStep{Name: []string{"a", "aws", "x"}[r.Intn(3)]}, lang.AttrStep{Name: []string{"b", "west"}[r.Intn(2)]}}
		default:
			ev.Address = lang.Address{lang.RootStep{Name: "a"}, lang.AttrStep{Name: "b"}, lang.IndexStep{Key: cty.NumberIntVal(int64(r.Intn(2)))}}
		}
		dk.Attributes = append(dk.Attributes, schema.AttributeDependent{Name: name, Expr: ev})
	}
	return dk
}

func copyKeys(dk schema.DependencyKeys) schema.DependencyKeys {
	return schema.DependencyKeys{Labels: append([]schema.LabelDependent{}, dk.Labels...), Attributes: append([]schema.AttributeDependent{}, dk.Attributes...)}
}

// setIdentity is the model's order-free identity of a key set.
func setIdentity(dk schema.DependencyKeys) string {
	var parts []string
	for _, l := range dk.Labels {
		parts = append(parts, fmt.Sprintf("L|%d|%q", l.Index, l.Value))
	}
	for _, a := range dk.Attributes {
		st := ""
		if a.Expr.Static != cty.NilVal {
			t := a.Expr.Static.Type()
			switch {
			case t == cty.String:
				st = fmt.Sprintf("s:%q", a.Expr.Static.AsString())
			case t == cty.Number:
				st = "n:" + a.Expr.Static.AsBigFloat().Text('g', -1)
			case t == cty.Bool:
				st = fmt.Sprintf("b:%t", a.Expr.Static.True())
			}
		}
		parts = append(parts, fmt.Sprintf("A|%s|%s|%s", a.Name, st, a.Expr.Address.String()))
	}
	sort.Strings(parts)
	return strings.Join(parts, ";")
}

func permutations(n int, f func(p []int)) {
	p := make([]int, n)
	for i := range p {
		p[i] = i
	}
	var rec func(k int)
	rec = func(k int) {
		if k == n {
			f(p)
			return
		}
		for i := k; i < n; i++ {
			p[k], p[i] = p[i], p[k]
			rec(k + 1)
			p[k], p[i] = p[i], p[k]
		}
	}
	rec(0)
}

func (p c16) keys(unit, n int, r *rand.Rand, rep *runner.Reporter) {
	byKey := map[schema.SchemaKey]string{}
	byID := map[string]schema.SchemaKey{}
	perms := 0
	for i := 0; i < n; i++ {
		dk := genKeySet(r)
		id := setIdentity(dk)
		ref := schema.NewSchemaKey(copyKeys(dk))
		// every permutation of labels x every permutation of attributes
		permutations(len(dk.Labels), func(pl []int) {
			permutations(len(dk.Attributes), func(pa []int) {
				q := schema.DependencyKeys{}
				for _, j := range pl {
					q.Labels = append(q.Labels, dk.Labels[j])
				}
				for _, j := range pa {
					q.Attributes = append(q.Attributes, dk.Attributes[j])
				}
				perms++
				if k := schema.NewSchemaKey(q); k != ref {
					rep.Violation(&runner.Witness{Sig: "KEY order-dependent", What: "NewSchemaKey differs between two orderings of the same key set",
						Unit: mustJSON(map[string]interface{}{"set": id}), Expected: string(ref), Observed: string(k)})
				}
			})
		})
		if strings.Contains(string(ref), `"error"`) {
			rep.Violation(&runner.Witness{Sig: "KEY marshal-error", What: "NewSchemaKey failed to encode a key set: " + string(ref), Unit: mustJSON(map[string]interface{}{"set": id})})
		}
		if other, ok := byKey[ref]; ok && other != id {
			rep.Violation(&runner.Witness{Sig: "KEY collision", What: "two different key sets share one schema key", Unit: mustJSON(map[string]interface{}{"set_a": other, "set_b": id}), Observed: string(ref)})
		}
		if other, ok := byID[id]; ok && other != ref {
			rep.Violation(&runner.Witness{Sig: "KEY same-set-different-key", What: "the same key set (e.g. a number written in int and float form) yields two schema keys", Unit: mustJSON(map[string]interface{}{"set": id}), Expected: string(other), Observed: string(ref)})
		}
		byKey[ref] = id
		byID[id] = ref
		rep.Distinct("key_sets", id)
		if len(dk.Labels)+len(dk.Attributes) >= 3 {
			rep.NonTrivial("keyset|" + id)
		}
	}
	rep.Eval(int64(perms))
	rep.Count("permutations_checked", int64(perms))
	rep.Sample(map[string]interface{}{"part": "keys", "sets": n, "permutations": perms, "distinct_keys": len(byKey)})
}

// ---------------------------------------------------------------- (b)(c) agreement

type blockCtx struct {
	block  *hclsyntax.Block
	bs     *schema.BlockSchema
	eff    *model.Eff
	depth  int
	unk    bool // below an unresolved / partially resolved dependent body
	inDyn  bool
	parent *model.Eff
}

// walkBlocks visits every schema-known block with the model's effective schema.
func walkBlocks(body *hclsyntax.Body, e *model.Eff, depth int, unk, inDyn bool, fn func(blockCtx)) {
	for _, b := range body.Blocks {
		if !e.Known {
			continue
		}
		bs := e.Blocks[b.Type]
		if bs == nil {
			continue
		}
		if b.Type == "dynamic" {
			continue
		}
		ne := model.Effective(b, bs, e)
		// (validation is not given a schema for blocks without a static body:
		// nothing can be "unexpected" there - treated like an unresolved body)
		nu := unk || ne.Lookup == model.Unresolved || ne.Lookup == model.Partial || bs.Body == nil
		fn(blockCtx{block: b, bs: bs, eff: ne, depth: depth, unk: nu, inDyn: inDyn, parent: e})
		if b.Body != nil && (bs.Body != nil || ne.Dep != nil) {
			walkBlocks(b.Body, ne, depth+1, nu, inDyn, fn)
		}
	}
}

func sortedKeys(m map[string]bool) []string {
	var out []string
	for k := range m {
		out = append(out, k)
	}
	sort.Strings(out)
	return out
}

func (p c16) agreement(unit int, rc Recipe, rep *runner.Reporter) {
	ws, err := rc.Make()
	if err != nil {
		return
	}
	env := ws.Build(true)
	for _, path := range ws.Order {
		pc := env.PathCtx[path]
		if pc.Schema == nil {
			continue
		}
		for _, file := range env.SortedFiles(path) {
			body, ok := pc.Files[file].Body.(*hclsyntax.Body)
			if !ok {
				continue
			}
			st := State{Path: path, File: file, Mut: Mutation{Kind: "none"}}
			unitJSON := func(extra string) []byte {
				return mustJSON(diffUnit{Recipe: rc, Path: path, File: file, Mut: st.Mut, Arg: extra})
			}
			// feature results for the whole file
			tokRes := env.Run(core.Query{Kind: core.QSemTokens, Path: path, File: file})
			toks, _ := tokRes.Value.([]lang.SemanticToken)
			tokAt := map[int]lang.SemanticToken{}
			for _, t := range toks {
				tokAt[t.Range.Start.Byte] = t
			}
			valRes := env.Run(core.Query{Kind: core.QValidateFile, Path: path, File: file})
			diags, _ := valRes.Value.(hcl.Diagnostics)
			unexpectedAt := map[int]bool{}
			for _, d := range diags {
				if d.Summary == "Unexpected attribute" && d.Subject != nil {
					unexpectedAt[d.Subject.Start.Byte] = true
				}
			}
			origins := pc.ReferenceOrigins
			originAt := map[int]bool{}
			for _, o := range origins {
				originAt[o.OriginRange().Start.Byte] = true
			}
			tab := env.Tables[path][file]
			src := ws.Paths[path].Files[file]
			walkBlocks(body, model.EffRoot(pc.Schema), 0, false, false, func(bc blockCtx) {
				b := bc.block
				rep.Mark(unit, b.Range().Start.Byte, -1, -1)
				where := fmt.Sprintf("block %s %v at byte %d", b.Type, b.Labels, b.Range().Start.Byte)
				// (b1) hook: the decoder's own effective schema has the same names
				hookEff, res := core.EffectiveBodySchema(b.AsHCLBlock(), bc.bs)
				rep.Eval(1)
				if hookEff != nil {
					got, want := map[string]bool{}, map[string]bool{}
					for n := range hookEff.Attributes {
						got["attr:"+n] = true
					}
					for n := range hookEff.Blocks {
						if n != "dynamic" {
							got["block:"+n] = true
						}
					}
					for n := range bc.eff.Attrs {
						want["attr:"+n] = true
					}
					for n := range bc.eff.Blocks {
						if n != "dynamic" {
							want["block:"+n] = true
						}
					}
					g, w := strings.Join(sortedKeys(got), ","), strings.Join(sortedKeys(want), ",")
					if g != w {
						srcs := keySources(bc.eff)
						rep.Violation(&runner.Witness{Sig: fmt.Sprintf("EFFECTIVE-SCHEMA differs lookup=%s keys=%s", bc.eff.Lookup, srcs), What: "the decoder's effective body schema for " + where + " differs from static body overlaid with the dependent body registered under the block's keys",
							Unit: unitJSON(where), Files: filesOf(ws), Expected: w, Observed: g + fmt.Sprintf(" (decoder lookup result %d)", res)})
					}
					rep.Distinct("lookup_outcomes", fmt.Sprintf("model=%s decoder=%d", bc.eff.Lookup, res))
				}
				if bc.eff.Dep != nil {
					rep.NonTrivial(fmt.Sprintf("%s|%s|%d|%s|%s", rc, file, b.Range().Start.Byte, bc.eff.Lookup, keySources(bc.eff)))
					if rep.NumSamples() < 5 {
						rep.Sample(map[string]interface{}{"part": "agreement", "source": rc.String(), "block": where, "lookup": bc.eff.Lookup.String(), "key_sources": keySources(bc.eff), "effective_attributes": len(bc.eff.Attrs)})
					}
				}
				if b.Body == nil || bc.inDyn {
					return
				}
				// (b2) written dep_* attributes: seen alike by tokens, hover, origins, validation
				for name, attr := range b.Body.Attributes {
					if !strings.HasPrefix(name, "dep_") {
						continue
					}
					_, known := bc.eff.Attrs[name]
					if _, how := bc.eff.AttrSchema(name); how == "any" {
						continue // an AnyAttribute body knows every name: not a marker situation
					}
					verdicts := map[string]bool{}
					_, hasTok := tokAt[attr.NameRange.Start.Byte]
					verdicts["tokens"] = hasTok
					if pos, ok := tab.At(attr.NameRange.Start.Byte); ok {
						hr := env.Run(core.Query{Kind: core.QHover, Path: path, File: file, Pos: pos})
						hd, _ := hr.Value.(*lang.HoverData)
						verdicts["hover"] = hd != nil
						if hd != nil && known {
							as := bc.eff.Attrs[name]
							if !strings.Contains(hd.Content.Value, as.Description.Value) {
								rep.Violation(&runner.Witness{Sig: "FEATURES hover-wrong-description", What: "hover on " + name + " does not carry the description of the selected dependent body", Unit: unitJSON(where), Files: filesOf(ws), Observed: hd.Content.Value, Expected: as.Description.Value})
							}
						}
					}
					if strings.HasSuffix(name, "_ref") {
						// self.* / count.* / each.* origins exist only where the body enables them
						if tr, isTrav := attr.Expr.(*hclsyntax.ScopeTraversalExpr); isTrav && tr.Traversal.RootName() != "self" && tr.Traversal.RootName() != "count" && tr.Traversal.RootName() != "each" {
							verdicts["origins"] = originAt[attr.Expr.Range().Start.Byte]
						}
					}
					if !bc.unk {
						verdicts["validation"] = !unexpectedAt[attr.NameRange.Start.Byte] && !unexpectedAt[attr.SrcRange.Start.Byte]
					}
					rep.Eval(int64(len(verdicts)))
					for feat, v := range verdicts {
						if v != known {
							rep.Violation(&runner.Witness{Sig: fmt.Sprintf("FEATURES disagree feature=%s model-known=%t lookup=%s", feat, known, bc.eff.Lookup),
								What: fmt.Sprintf("%s: attribute %s of the dependent body is known=%t by the effective schema, but %s behaves as known=%t", where, name, known, feat, v),
								Unit: unitJSON(where + " attr " + name), Files: filesOf(ws)})
						}
					}
				}
				// (b3) completion on a fresh line with the typed prefix "dep_"
				if b.OpenBraceRange.End.Byte > 0 && b.OpenBraceRange.End.Byte <= len(src) && b.OpenBraceRange.End.Line != b.CloseBraceRange.Start.Line {
					at := b.OpenBraceRange.End.Byte
					ins := "\ndep_"
					ws2, _ := rc.Make()
					ws2.Paths[path].Files[file] = src[:at] + ins + src[at:]
					env2 := ws2.Build(true)
					tab2 := env2.Tables[path][file]
					if pos, ok := tab2.At(at + len(ins)); ok {
						cr := env2.Run(core.Query{Kind: core.QCompletion, Path: path, File: file, Pos: pos})
						rep.Eval(1)
						if cands, ok := cr.Value.(lang.Candidates); ok && cr.Panic == nil {
							got := map[string]bool{}
							for _, c := range cands.List {
								if strings.HasPrefix(c.Label, "dep_") {
									got[c.Label] = true
								}
							}
							want := map[string]bool{}
							for n, a := range bc.eff.Attrs {
								if strings.HasPrefix(n, "dep_") && !(a.IsComputed && !a.IsOptional) {
									if _, declared := b.Body.Attributes[n]; !declared {
										want[n] = true
									}
								}
							}
							g, w := strings.Join(sortedKeys(got), ","), strings.Join(sortedKeys(want), ",")
							if g != w && len(cands.List) < 100 {
								rep.Violation(&runner.Witness{Sig: fmt.Sprintf("FEATURES disagree feature=completion lookup=%s", bc.eff.Lookup),
									What: where + ": completion of 'dep_' on a fresh line offers other dependent-body attributes than the effective schema holds",
									Unit: unitJSON(where), Files: filesOf(ws2), Expected: w, Observed: g})
							}
						}
					}
				}
			})
			// (c) links of top-level blocks
			var want []string
			for _, b := range body.Blocks {
				bs := pc.Schema.Blocks[b.Type]
				if bs == nil || b.Body == nil {
					continue
				}
				e := model.Effective(b, bs, model.EffRoot(pc.Schema))
				if e.Dep == nil || e.Dep.DocsLink == nil {
					continue
				}
				for _, k := range e.Keys {
					if k.Label {
						if k.Index < len(b.LabelRanges) {
							want = append(want, fmt.Sprintf("%s|%s|%s", fmtRange(b.LabelRanges[k.Index]), normURL(e.Dep.DocsLink.URL), e.Dep.DocsLink.Tooltip))
						}
					} else if a, ok := b.Body.Attributes[k.Name]; ok {
						want = append(want, fmt.Sprintf("%s|%s|%s", fmtRange(a.Expr.Range()), normURL(e.Dep.DocsLink.URL), e.Dep.DocsLink.Tooltip))
					}
				}
			}
			lr := env.Run(core.Query{Kind: core.QLinks, Path: path, File: file})
			rep.Eval(1)
			if links, ok := lr.Value.([]lang.Link); ok && lr.Panic == nil && lr.Err == nil {
				var got []string
				for _, l := range links {
					uri := l.URI
					if i := strings.Index(uri, "?"); i >= 0 {
						uri = uri[:i]
					}
					got = append(got, fmt.Sprintf("%s|%s|%s", fmtRange(l.Range), normURL(uri), l.Tooltip))
				}
				sort.Strings(got)
				sort.Strings(want)
				if strings.Join(got, "\n") != strings.Join(want, "\n") {
					class := "differ"
					if len(got) < len(want) {
						class = "missing"
					} else if len(got) > len(want) {
						class = "surplus"
					}
					rep.Violation(&runner.Witness{Sig: "LINKS " + class, What: "LinksInFile does not attach links to exactly the labels/attributes that selected a body with a DocsLink",
						Unit: unitJSON(""), Files: filesOf(ws), Expected: strings.Join(want, "\n"), Observed: strings.Join(got, "\n")})
				}
				rep.Count("links_compared", int64(len(want)))
			}
		}
	}
}

func keySources(e *model.Eff) string {
	set := map[string]bool{}
	for _, k := range e.Keys {
		set[k.Source] = true
	}
	return strings.Join(sortedKeys(set), "+")
}

var _ = reference.Origins{}

func (p c16) Extra(m *runner.Merged) map[string]interface{} {
	return map[string]interface{}{"exhaustive_part": "all permutations of every generated key set (<= 5 keys) are enumerated; the sets themselves and the configurations are sampled", "key_sets": len(m.Sets["key_sets"])}
}

func init() { Register(c16{}) }

// normURL is the URI in its serialised form (non-ASCII bytes percent-encoded),
// which is what a link carries.
func normURL(s string) string {
	if u, err := url.Parse(s); err == nil {
		return u.String()
	}
	return s
}
