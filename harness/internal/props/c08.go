package props

import (
	"encoding/json"
	"fmt"
	"sort"
	"strings"

	"github.com/hashicorp/hcl-lang/decoder"
	"github.com/hashicorp/hcl-lang/lang"
	"github.com/hashicorp/hcl-lang/reference"
	"github.com/hashicorp/hcl-lang/schema"
	"github.com/hashicorp/hcl/v2"
	"github.com/hashicorp/hcl/v2/hclsyntax"
	"github.com/zclconf/go-cty/cty"
	"github.com/zclconf/go-cty/cty/convert"

	"verifharness/internal/core"
	"verifharness/internal/model"
	"verifharness/internal/runner"
)

// C08: value completion offers only what fits.

type c08 struct{}

func (c08) ID() string { return "C08" }
func (c08) Meta() Meta {
	return Meta{
		Level:       "exploration",
		Rule:        "soundness + round-trip monitor: (a) on fixtures and generated reference-heavy configurations every cursor inside an attribute value of the base files (all expression forms the generator writes: operators, templates, conditionals, for, index, function arguments, parentheses, collection literals) gets CompletionAtPos; every reference candidate must be the address (absolute, or block-local with the cursor inside its visible-from range and self.* only where enabled) of a collected declaration, must not be a declaration that lies inside the attribute being edited, with a direct Reference scope constraint must carry (or nest) that scope, and where the expected type is known (any-expression at the top of an emptied / prefixed value) one of its declarations or something nested below must convert to it; every function candidate must be a known function of THIS path (description and parameter list of this path's signature - the fixture's child module and root declare functions of the same names with different signatures) whose return type converts to the expected type when that type is known; (b) 'typing replays' rewrite the value of seeded attributes to empty and to prefixes of offered candidates: every candidate must start with the typed prefix (whether the candidate the prefix was cut from is offered again is counted only: the property states soundness); for Keyword / LiteralValue / bool LiteralType constraints (and OneOf of them) the candidates at the empty value must be exactly the admitted words; (c) accepting a reference candidate whose declaration itself fits, re-collecting targets and origins and asking go-to-definition at the inserted text must report that declaration. distinct non-trivial = (expression form at the cursor, constraint kind, candidate kind) with >= 1 candidate.",
		Assumptions: []string{"don't-care: the order of candidates of different producers; truncated lists (soundness only)", "the expected type of nested positions (inside operators, calls, collections) is not modelled: there only address/visibility/function-known soundness is checked"},
		Floor:       map[string]int{"quick": 40, "thorough": 100},
		CaseBudget:  60,
	}
}

func c08Params(tier string) (nGenQ, nGenT, replays int) {
	if tier == "thorough" {
		return 100, 2000, 30
	}
	return 100, 2000, 8
}

func (p c08) NumUnits(tier string, seed int64) int {
	q, t, _ := c08Params(tier)
	return len(diffSources(tier, seed, q, t))
}

type valueSite struct {
	attr   *hclsyntax.Attribute
	schema *schema.AttributeSchema
	eff    *model.Eff
	how    string
}

func valueSites(body *hclsyntax.Body, e *model.Eff, out *[]valueSite) {
	if !e.Known {
		return
	}
	for name, a := range body.Attributes {
		as, how := e.AttrSchema(name)
		if as != nil && as.Constraint != nil {
			*out = append(*out, valueSite{attr: a, schema: as, eff: e, how: how})
		}
	}
	for _, b := range body.Blocks {
		bs := e.Blocks[b.Type]
		if bs == nil || b.Body == nil || b.Type == "dynamic" {
			continue
		}
		if bs.Body == nil && len(bs.DependentBody) == 0 {
			continue
		}
		valueSites(b.Body, model.Effective(b, bs, e), out)
	}
}

func (p c08) RunUnit(idx int, tier string, seed int64, focus map[string]string, rep *runner.Reporter) {
	q, t, replays := c08Params(tier)
	srcs := diffSources(tier, seed, q, t)
	if idx >= len(srcs) {
		return
	}
	rc := srcs[idx].Recipe
	rnd := unitRand(seed, "C08", idx)
	base, err := rc.Make()
	if err != nil {
		return
	}
	for _, st := range diffStates(base, rnd, 0) {
		if core.IsJSON(st.File) {
			continue
		}
		ws, _ := rc.Make()
		text := ws.Paths[st.Path].Files[st.File]
		// (a) every value cursor of the base file
		p.checkText(idx, rc, st, text, -1, "", rep)
		// (d) the same file with CRLF line endings: the constraint at every cursor is the same
		p.crlfTwin(idx, rc, st, text, rep)
		// (b),(c) typing replays
		_, env, _ := buildState(rc, st)
		if env == nil {
			continue
		}
		pc := env.PathCtx[st.Path]
		body, ok := pc.Files[st.File].Body.(*hclsyntax.Body)
		if !ok || pc.Schema == nil {
			continue
		}
		var sites []valueSite
		valueSites(body, model.EffRoot(pc.Schema), &sites)
		sort.Slice(sites, func(i, j int) bool { return sites[i].attr.SrcRange.Start.Byte < sites[j].attr.SrcRange.Start.Byte })
		// the seeded picks, preceded by every attribute of the root body (few, and the only
		// ones that are edited outside any block)
		var picks []valueSite
		for _, s := range sites {
			if s.attr.SrcRange.Start.Column == 1 && len(picks) < 6 {
				picks = append(picks, s)
			}
		}
		for r := 0; r < replays && len(sites) > 0; r++ {
			picks = append(picks, sites[rnd.Intn(len(sites))])
		}
		for _, s := range picks {
			// rewrite "name = <expr>" to "name = " (rest of the expression dropped)
			es, ee := s.attr.Expr.Range().Start.Byte, s.attr.Expr.Range().End.Byte
			if es <= 0 || ee > len(text) || es > ee {
				continue
			}
			empty := text[:es] + text[ee:]
			labels := p.checkText(idx, rc, st, empty, es, "empty", rep)
			// words offered for the empty value, typed in another letter case (identifiers are
			// case sensitive: `True` is a reference, not the start of `true`)
			typedSeen := map[string]bool{}
			for _, w := range append([]string{"true", "false"}, c08LastWords...) {
				if len(w) < 2 || !hclsyntax.ValidIdentifier(w) {
					continue
				}
				for _, tv := range []string{strings.ToUpper(w[:1]), strings.ToUpper(w[:1]) + w[1:2], w[:1] + strings.ToUpper(w[1:2]), strings.ToUpper(w)} {
					if tv == w[:len(tv)] || typedSeen[tv] || len(typedSeen) >= 10 {
						continue
					}
					typedSeen[tv] = true
					p.checkText(idx, rc, st, text[:es]+tv+text[ee:], es+len(tv), "typed:"+tv, rep)
					rep.Count("typed_other_case_replays", 1)
				}
			}
			// prefixes of up to two offered reference candidates
			n := 0
			for _, l := range labels {
				if n >= 2 {
					break
				}
				n++
				cuts := []int{1, len(l) / 2}
				if i := strings.Index(l, "."); i > 0 && i+1 < len(l) {
					cuts = append(cuts, i+1)
				}
				for _, k := range cuts {
					if k <= 0 || k >= len(l) || !hclsyntax.ValidIdentifier(strings.SplitN(l[:k], ".", 2)[0]) {
						continue
					}
					typed := text[:es] + l[:k] + text[ee:]
					p.checkText(idx, rc, st, typed, es+k, "prefix:"+l, rep)
				}
			}
		}
	}
}

// c08LastWords: keyword / bool candidates of the last single-cursor checkText call.
var c08LastWords []string

// checkText runs the checks on one text; only>=0 restricts to one cursor.
// It returns the labels of the reference candidates at that cursor.
func (p c08) checkText(unit int, rc Recipe, st State, text string, only int, mode string, rep *runner.Reporter) []string {
	ws, err := rc.Make()
	if err != nil {
		return nil
	}
	ws.Paths[st.Path].Files[st.File] = text
	env := ws.Build(true)
	pc := env.PathCtx[st.Path]
	f := pc.Files[st.File]
	if f == nil || pc.Schema == nil {
		return nil
	}
	body, ok := f.Body.(*hclsyntax.Body)
	if !ok {
		return nil
	}
	tab := env.Tables[st.Path][st.File]
	src := []byte(text)
	root := model.EffRoot(pc.Schema)
	var flat []reference.Target
	flattenTargets(pc.ReferenceTargets, &flat)
	byAbs, byLocal := map[string][]reference.Target{}, map[string][]reference.Target{}
	for _, t := range flat {
		if len(t.Addr) > 0 {
			byAbs[t.Addr.String()] = append(byAbs[t.Addr.String()], t)
		}
		if len(t.LocalAddr) > 0 {
			byLocal[t.LocalAddr.String()] = append(byLocal[t.LocalAddr.String()], t)
		}
	}
	offs := tab.Offsets()
	if only >= 0 {
		offs = []int{only}
	}
	var refLabels []string
	var emptySites []valueSite
	for _, off := range offs {
		pos, ok := tab.At(off)
		if !ok {
			continue
		}
		cls := model.Classify(src, body, root, off, "", false, false)
		if mode == "empty" && cls.Attr == nil {
			// the value was emptied: the attribute's own extent ends in front of the cursor,
			// it is found by its line
			if emptySites == nil {
				emptySites = []valueSite{}
				valueSites(body, root, &emptySites)
			}
			for _, vs := range emptySites {
				if vs.attr.NameRange.Start.Line == pos.Line && vs.attr.NameRange.End.Byte < off {
					cls.Kind, cls.Attr, cls.AttrSchema, cls.Eff = "value", vs.attr, vs.schema, vs.eff
					rep.Count("emptied_values_asked", 1)
				}
			}
		}
		if cls.Kind != "value" && !(mode != "" && cls.Kind == "other" && cls.Attr != nil) {
			continue
		}
		if cls.InDyn || cls.Attr == nil || cls.AttrSchema == nil || cls.AttrSchema.Constraint == nil {
			continue
		}
		rep.Mark(unit, off, -1, -1)
		q := core.Query{Kind: core.QCompletion, Path: st.Path, File: st.File, Pos: pos}
		r := env.Run(q)
		rep.Eval(1)
		if r.Panic != nil || r.Err != nil {
			continue
		}
		cands, ok := r.Value.(lang.Candidates)
		if !ok || len(cands.List) == 0 {
			continue
		}
		unitJSON := mustJSON(CaseSpec{Recipe: rc, Path: st.Path, File: st.File, Mut: Mutation{Kind: "text", Text: text}, Kind: q.Kind.String(), Byte: off, Arg: mode})
		viol := func(sig, what string) {
			rep.Violation(&runner.Witness{Sig: sig, What: what, Unit: unitJSON, Files: filesOf(ws), Query: q.String()})
		}
		consKind := strings.TrimPrefix(fmt.Sprintf("%T", cls.AttrSchema.Constraint), "schema.")
		form := innermostExprKind(cls.Attr.Expr, off)
		attrRange := cls.Attr.SrcRange
		wantScope := lang.ScopeId("")
		if rc, ok := cls.AttrSchema.Constraint.(schema.Reference); ok {
			wantScope = rc.OfScopeId
		}
		var wantType cty.Type = cty.NilType
		if ae, ok := cls.AttrSchema.Constraint.(schema.AnyExpression); ok && (mode == "empty" || strings.HasPrefix(mode, "prefix:")) {
			wantType = ae.OfType
		}
		typedPrefix := ""
		if strings.HasPrefix(mode, "prefix:") || strings.HasPrefix(mode, "typed:") {
			typedPrefix = string(src[cls.Attr.Expr.Range().Start.Byte:off])
		}
		if only >= 0 {
			c08LastWords = nil
		}
		kinds := map[string]bool{}
		for _, c := range cands.List {
			k := candKind(c.Kind)
			kinds[k] = true
			switch c.Kind {
			case lang.KeywordCandidateKind, lang.BoolCandidateKind:
				if only >= 0 {
					c08LastWords = append(c08LastWords, c.Label)
				}
				// identifiers are case sensitive: a word is offered only for text it starts with
				if typedPrefix != "" && hclsyntax.ValidIdentifier(typedPrefix) && !strings.HasPrefix(c.Label, typedPrefix) {
					viol("WORD-CANDIDATE ignores-typed-prefix kind="+k, fmt.Sprintf("%s candidate %q does not start with the typed text %q", k, c.Label, typedPrefix))
				}
			case lang.ReferenceCandidateKind:
				if only >= 0 {
					refLabels = append(refLabels, c.Label)
				}
				abs, loc := byAbs[c.Label], byLocal[c.Label]
				if len(abs)+len(loc) == 0 {
					viol("REF-CANDIDATE not-a-collected-declaration form="+form, fmt.Sprintf("reference candidate %q is not the address of any collected declaration", c.Label))
					continue
				}
				visible := len(abs) > 0
				for _, t := range loc {
					if t.TargetableFromRangePtr == nil || (t.TargetableFromRangePtr.Filename == q.File && (t.TargetableFromRangePtr.ContainsPos(pos) || posEqual(t.TargetableFromRangePtr.End, pos))) {
						if t.LocalAddr[0].String() == "self" && !cls.Eff.Ext.SelfRefs {
							continue
						}
						visible = true
					}
				}
				if !visible {
					viol("REF-CANDIDATE local-name-not-visible form="+form, fmt.Sprintf("block-local candidate %q is offered outside the block it belongs to (or self.* where not enabled)", c.Label))
				}
				// never the attribute being edited itself
				onlyInside := true
				for _, t := range append(append([]reference.Target{}, abs...), loc...) {
					if t.RangePtr == nil || !(rangeWithin(*t.RangePtr, attrRange)) {
						onlyInside = false
					}
				}
				if onlyInside {
					class := "declaration-inside-edited-attribute"
					// narrow, known shape: the edited attribute's own declaration is offered
					// because it has nested (element) declarations
					for _, t := range append(append([]reference.Target{}, abs...), loc...) {
						if t.RangePtr != nil && *t.RangePtr == attrRange && len(t.NestedTargets) > 0 {
							class = "edited-attribute-itself-offered-because-it-has-nested-declarations"
						}
					}
					viol("REF-CANDIDATE "+class, fmt.Sprintf("candidate %q only denotes declarations inside the attribute being edited", c.Label))
				}
				if wantScope != "" && form == "top" {
					fits := false
					for _, t := range append(append([]reference.Target{}, abs...), loc...) {
						if targetOrNestedHasScope(t, wantScope) {
							fits = true
						}
					}
					if !fits {
						viol("REF-CANDIDATE wrong-scope", fmt.Sprintf("candidate %q has no declaration (nor nested one) of the expected scope %q", c.Label, wantScope))
					}
				}
				// expected type: some declaration of that address (or one nested below it) must fit
				if wantType != cty.NilType && wantType != cty.DynamicPseudoType && form == "top" {
					fits := false
					for _, t := range append(append([]reference.Target{}, abs...), loc...) {
						if targetOrNestedFitsType(t, wantType, 0) {
							fits = true
						}
					}
					if !fits {
						viol("REF-CANDIDATE type-does-not-fit", fmt.Sprintf("candidate %q: neither its declarations nor anything nested below them converts to the expected %s", c.Label, wantType.FriendlyName()))
					}
				}
				if typedPrefix != "" && !strings.HasPrefix(c.Label, typedPrefix) {
					viol("REF-CANDIDATE ignores-typed-prefix", fmt.Sprintf("candidate %q does not start with the typed text %q", c.Label, typedPrefix))
				}
			case lang.FunctionCandidateKind:
				fs, known := pc.Functions[c.Label]
				if !known {
					viol("FUNC-CANDIDATE unknown-function form="+form, fmt.Sprintf("function candidate %q is not a known function", c.Label))
					continue
				}
				if wantType != cty.NilType && wantType != cty.DynamicPseudoType && form == "top" {
					if !fs.ReturnType.Equals(wantType) && fs.ReturnType != cty.DynamicPseudoType && convert.GetConversionUnsafe(fs.ReturnType, wantType) == nil {
						viol("FUNC-CANDIDATE return-type-does-not-convert", fmt.Sprintf("function %q returns %s which does not convert to the expected %s", c.Label, fs.ReturnType.FriendlyName(), wantType.FriendlyName()))
					}
				}
				// the candidate describes THIS path's function of that name: description and
				// parameter list (names in order, one entry per parameter) of its signature
				if c.Description.Value != fs.Description {
					viol("FUNC-CANDIDATE description-of-another-signature", fmt.Sprintf("function candidate %q carries the description %q, this path declares %q", c.Label, trunc(c.Description.Value, 80), trunc(fs.Description, 80)))
				}
				if i, j := strings.Index(c.Detail, "("), strings.LastIndex(c.Detail, ")"); strings.HasPrefix(c.Detail, c.Label+"(") && j > i {
					var entries []string
					if inner := c.Detail[i+1 : j]; inner != "" {
						entries = strings.Split(inner, ", ")
					}
					want := paramNames(fs)
					ok := len(entries) == len(want)
					for k := 0; ok && k < len(want); k++ {
						if !strings.Contains(entries[k], want[k]+" ") {
							ok = false
						}
					}
					if !ok {
						viol("FUNC-CANDIDATE detail-of-another-signature", fmt.Sprintf("function candidate %q is detailed as %q, this path declares the parameters %v", c.Label, c.Detail, want))
					}
				}
				if typedPrefix != "" && !strings.HasPrefix(c.Label, typedPrefix) {
					viol("FUNC-CANDIDATE ignores-typed-prefix", fmt.Sprintf("function candidate %q does not start with the typed text %q", c.Label, typedPrefix))
				}
			}
		}
		// prefix replay: the candidate the prefix was cut from must still be offered
		if strings.HasPrefix(mode, "prefix:") && len(cands.List) < 100 {
			want := strings.TrimPrefix(mode, "prefix:")
			found := false
			for _, c := range cands.List {
				if c.Label == want {
					found = true
				}
			}
			// (the property asks for soundness of what is offered, not for completeness:
			// a candidate offered for the empty value and no longer after its prefix -
			// nested declarations below a typed root are - is counted, not a violation)
			if !found {
				rep.Count("offered_at_empty_value_but_not_after_prefix", 1)
			} else {
				rep.Count("offered_again_after_prefix", 1)
			}
		}
		// exactness for word constraints at the empty value
		if mode == "empty" {
			if words, ok := admittedWords(cls.AttrSchema.Constraint); ok && len(cands.List) < 100 {
				var got []string
				for _, c := range cands.List {
					switch c.Kind {
					case lang.KeywordCandidateKind, lang.BoolCandidateKind, lang.StringCandidateKind, lang.NumberCandidateKind:
						got = append(got, c.Label)
					default:
						got = append(got, "<"+candKind(c.Kind)+":"+c.Label+">")
					}
				}
				sort.Strings(got)
				sort.Strings(words)
				if strings.Join(got, "|") != strings.Join(words, "|") {
					viol("WORD-CANDIDATES differ constraint="+consKind, fmt.Sprintf("candidates %v at the empty value, the constraint admits exactly %v", got, words))
				}
			}
		}
		// (c) round trip for one reference candidate whose declaration itself fits
		// (not for dependency-key attributes: accepting a value there selects another body)
		if mode == "empty" && wantScope != "" && !cls.AttrSchema.IsDepKey {
			for _, c := range cands.List {
				if c.Kind != lang.ReferenceCandidateKind {
					continue
				}
				var decl *reference.Target
				for _, t := range byAbs[c.Label] {
					// (declarations without a definition range - traversals declared through
					// Reference{Address} - cannot be recognised in the go-to-definition answer)
					if t.ScopeId == wantScope && t.RangePtr != nil && t.DefRangePtr != nil && t.Type == cty.NilType {
						tt := t
						decl = &tt
					}
				}
				if decl == nil {
					continue
				}
				// (an address built from a label that is no identifier - "l&<2>" - cannot be written
				// as a traversal at all: don't-care)
				if _, diags := hclsyntax.ParseTraversalAbs([]byte(c.Label), "", hcl.InitialPos); diags.HasErrors() {
					rep.Count("candidates_not_writable_as_traversal", 1)
					continue
				}
				newText, ok := applySnippet(text, c.TextEdit)
				if !ok {
					break
				}
				ws2, _ := rc.Make()
				ws2.Paths[st.Path].Files[st.File] = newText
				env2 := ws2.Build(true)
				tab2 := env2.Tables[st.Path][st.File]
				ipos, ok := tab2.At(c.TextEdit.Range.Start.Byte)
				if !ok {
					break
				}
				gr := env2.Run(core.Query{Kind: core.QGotoDef, Path: st.Path, File: st.File, Pos: ipos})
				rep.Eval(1)
				rts, _ := gr.Value.(decoder.ReferenceTargets)
				found := false
				for _, rt := range rts {
					if rt.DefRangePtr != nil && decl.DefRangePtr != nil && rt.DefRangePtr.Start.Line > 0 {
						// the file changed only on the edited line: compare headers by text
						if sliceOf(newText, *rt.DefRangePtr) == sliceOf(text, *decl.DefRangePtr) {
							found = true
						}
					}
				}
				if !found {
					viol("ROUNDTRIP accepted-reference-does-not-resolve", fmt.Sprintf("after accepting %q go-to-definition at the inserted text does not report its declaration %s", c.Label, fmtRange(*decl.RangePtr)))
				}
				rep.Count("round_trips", 1)
				break
			}
		}
		for k := range kinds {
			rep.NonTrivial(fmt.Sprintf("%s|%s|%s", form, consKind, k))
		}
		if rep.NumSamples() < 5 && kinds["reference"] {
			rep.Sample(map[string]interface{}{"source": rc.String(), "mode": mode, "attribute": cls.Attr.Name, "constraint": consKind, "expression_form_at_cursor": form, "candidates": len(cands.List), "first": cands.List[0].Label})
		}
	}
	return refLabels
}

func sliceOf(text string, r hcl.Range) string {
	if r.Start.Byte < 0 || r.End.Byte > len(text) || r.Start.Byte > r.End.Byte {
		return "?"
	}
	return text[r.Start.Byte:r.End.Byte]
}

func posEqual(a, b hcl.Pos) bool { return a.Byte == b.Byte }

func targetOrNestedHasScope(t reference.Target, s lang.ScopeId) bool {
	if t.ScopeId == s {
		return true
	}
	for _, n := range t.NestedTargets {
		if targetOrNestedHasScope(n, s) {
			return true
		}
	}
	return false
}

// targetOrNestedFitsType: a type-less declaration says nothing about its type (fits); a
// dynamically typed one fits anything; otherwise the declared type must convert to the
// expected one - or some declaration nested below must fit.
func targetOrNestedFitsType(t reference.Target, want cty.Type, depth int) bool {
	if t.Type == cty.NilType || t.Type == cty.DynamicPseudoType || t.Type.Equals(want) || convert.GetConversionUnsafe(t.Type, want) != nil {
		return true
	}
	if depth < 64 { // (the trees are finite; 6 was too shallow for blocks nested three deep)
		for _, n := range t.NestedTargets {
			if targetOrNestedFitsType(n, want, depth+1) {
				return true
			}
		}
	}
	return false
}

// admittedWords lists the exact words a word-like constraint admits.
func admittedWords(c schema.Constraint) ([]string, bool) {
	switch t := c.(type) {
	case schema.Keyword:
		return []string{t.Keyword}, true
	case schema.LiteralValue:
		v := t.Value
		switch {
		case v.Type() == cty.Bool:
			if v.True() {
				return []string{"true"}, true
			}
			return []string{"false"}, true
		}
		return nil, false
	case schema.LiteralType:
		if t.Type == cty.Bool {
			return []string{"false", "true"}, true
		}
		return nil, false
	case schema.OneOf:
		var all []string
		for _, alt := range t {
			w, ok := admittedWords(alt)
			if !ok {
				return nil, false
			}
			all = append(all, w...)
		}
		// de-duplicate
		seen := map[string]bool{}
		var out []string
		for _, w := range all {
			if !seen[w] {
				seen[w] = true
				out = append(out, w)
			}
		}
		return out, len(out) > 0
	}
	return nil, false
}

// innermostExprKind names the innermost expression node under the cursor
// ("top" when the cursor is in the attribute's outermost expression).
func innermostExprKind(e hclsyntax.Expression, off int) string {
	kind := "top"
	depth := 0
	hclsyntax.VisitAll(e, func(n hclsyntax.Node) hcl.Diagnostics {
		r := n.Range()
		if r.Start.Byte <= off && off <= r.End.Byte {
			depth++
			if depth > 1 {
				switch n.(type) {
				case *hclsyntax.ScopeTraversalExpr, *hclsyntax.LiteralValueExpr, *hclsyntax.ObjectConsKeyExpr:
				default:
					if ex, ok := n.(hclsyntax.Expression); ok {
						kind = exprKind(ex)
					}
				}
			}
		}
		return nil
	})
	return kind
}

func (p c08) Replay(w *runner.Witness, rep *runner.Reporter) error {
	var spec CaseSpec
	if err := json.Unmarshal(w.Unit, &spec); err != nil {
		return err
	}
	p.checkText(0, spec.Recipe, State{Path: spec.Path, File: spec.File}, spec.Mut.Text, spec.Byte, spec.Arg, rep)
	return nil
}

func init() { Register(c08{}) }

// crlfTwin asks for completion at every cursor of a file and at the corresponding cursor
// of the same file written with CRLF line endings. The constraint at the cursor is the
// same in both, so the offered candidates (label and kind) must be the same; a difference
// means that one of the two lists is not what the constraint admits.
func (p c08) crlfTwin(unit int, rc Recipe, st State, text string, rep *runner.Reporter) {
	if strings.Contains(text, "\r") || strings.Contains(text, "<<") {
		return // already CRLF; heredoc bodies legitimately differ
	}
	p.crlfCompare(unit, rc, st, text, nil, "crlf", rep)
	// an empty line opened in every argument / element slot: behind the opening bracket
	// and behind every separating comma of calls, tuples and objects
	f, diags := hclsyntax.ParseConfig([]byte(text), st.File, hcl.InitialPos)
	if f == nil || diags.HasErrors() {
		return
	}
	var sites []int
	afterComma := func(from, to int) {
		for i := from; i < to && i < len(text); i++ {
			switch text[i] {
			case ',':
				sites = append(sites, i+1)
				return
			case ' ', '\t':
			default:
				return
			}
		}
	}
	hclsyntax.VisitAll(f.Body.(*hclsyntax.Body), func(n hclsyntax.Node) hcl.Diagnostics {
		switch e := n.(type) {
		case *hclsyntax.FunctionCallExpr:
			sites = append(sites, e.OpenParenRange.End.Byte)
			for _, a := range e.Args {
				afterComma(a.Range().End.Byte, e.CloseParenRange.Start.Byte)
			}
		case *hclsyntax.TupleConsExpr:
			sites = append(sites, e.OpenRange.End.Byte)
			for _, a := range e.Exprs {
				afterComma(a.Range().End.Byte, e.SrcRange.End.Byte-1)
			}
		case *hclsyntax.ObjectConsExpr:
			sites = append(sites, e.OpenRange.End.Byte)
			for _, it := range e.Items {
				afterComma(it.ValueExpr.Range().End.Byte, e.SrcRange.End.Byte-1)
			}
		}
		return nil
	})
	sort.Ints(sites)
	if len(sites) > 80 {
		// evenly thinned, deterministic
		var th []int
		for i := 0; i < 80; i++ {
			th = append(th, sites[i*len(sites)/80])
		}
		sites = th
	}
	for _, k := range sites {
		if k <= 0 || k > len(text) {
			continue
		}
		opened := text[:k] + "\n    \n" + text[k:]
		rep.Count("crlf_twin_slots", 1)
		p.crlfCompare(unit, rc, st, opened, []int{k + 5}, "crlf-slot", rep)
	}
}

// crlfCompare compares completion at the given cursors (all when nil) of an LF text with
// the corresponding cursors of its CRLF rendering.
func (p c08) crlfCompare(unit int, rc Recipe, st State, text string, only []int, arg string, rep *runner.Reporter) {
	twin := strings.ReplaceAll(text, "\n", "\r\n")
	mk := func(t string) (*core.Env, *core.Workspace) {
		ws, err := rc.Make()
		if err != nil {
			return nil, nil
		}
		ws.Paths[st.Path].Files[st.File] = t
		return ws.Build(true), ws
	}
	envA, _ := mk(text)
	envB, wsB := mk(twin)
	if envA == nil || envB == nil {
		return
	}
	tabA, tabB := envA.Tables[st.Path][st.File], envB.Tables[st.Path][st.File]
	if tabA == nil || tabB == nil {
		return
	}
	offs := only
	if offs == nil {
		offs = tabA.Offsets()
	}
	nl := 0
	next := 0
	for _, off := range offs {
		for next < off && next < len(text) {
			if text[next] == '\n' {
				nl++
			}
			next++
		}
		posA, ok1 := tabA.At(off)
		posB, ok2 := tabB.At(off + nl)
		if !ok1 || !ok2 {
			continue
		}
		rep.Mark(unit, off, -2, -1)
		qa := core.Query{Kind: core.QCompletion, Path: st.Path, File: st.File, Pos: posA}
		qb := core.Query{Kind: core.QCompletion, Path: st.Path, File: st.File, Pos: posB}
		ra, rb := envA.Run(qa), envB.Run(qb)
		rep.Eval(2)
		rep.Count("crlf_twin_cursors", 1)
		unitJSON := mustJSON(CaseSpec{Recipe: rc, Path: st.Path, File: st.File, Mut: Mutation{Kind: "text", Text: twin}, Kind: qb.Kind.String(), Byte: off + nl, Arg: arg})
		if ra.Panic != nil || rb.Panic != nil {
			continue
		}
		if (ra.Err != nil) != (rb.Err != nil) {
			rep.Violation(&runner.Witness{Sig: "CRLF-TWIN completion fails with one line ending only",
				What: fmt.Sprintf("completion at the same cursor returns an error with one line ending and candidates with the other: LF err=%v CRLF err=%v", ra.Err, rb.Err),
				Unit: unitJSON, Files: filesOf(wsB), Query: qb.String()})
			continue
		}
		ca, _ := ra.Value.(lang.Candidates)
		cb, _ := rb.Value.(lang.Candidates)
		la, lb := candLabels(ca), candLabels(cb)
		if len(ca.List) > 0 && only != nil {
			rep.Count("crlf_twin_slots_with_candidates", 1)
		}
		if la != lb {
			rep.Violation(&runner.Witness{Sig: "CRLF-TWIN candidates differ with the line ending",
				What: fmt.Sprintf("the same cursor of the same file offers different candidates with LF and with CRLF line endings (the constraint there is the same)\n LF  : %s\n CRLF: %s", la, lb),
				Unit: unitJSON, Files: filesOf(wsB), Query: qb.String()})
		}
	}
}

func candLabels(c lang.Candidates) string {
	var ls []string
	for _, x := range c.List {
		// (a hook may echo the typed prefix, line ending included, in its label)
		ls = append(ls, fmt.Sprintf("%s/%d", strings.ReplaceAll(strings.ReplaceAll(x.Label, "\r", ""), `\r`, ""), x.Kind))
	}
	sort.Strings(ls)
	return fmt.Sprintf("complete=%v %s", c.IsComplete, strings.Join(ls, " "))
}
