package props

import (
	"fmt"
	"github.com/hashicorp/hcl-lang/schema"
	"github.com/zclconf/go-cty/cty"
	"regexp"
	"sort"
	"strconv"
	"strings"

	"github.com/hashicorp/hcl-lang/lang"
	"github.com/hashicorp/hcl/v2"
	"github.com/hashicorp/hcl/v2/hclsyntax"

	"verifharness/internal/core"
	"verifharness/internal/model"
	"verifharness/internal/postab"
	"verifharness/internal/runner"
)

// ---------------------------------------------------------------- C06 invariants

var tabStopRe = regexp.MustCompile(`\$\{(\d+)[:}]|\$(\d+)`)

// tabStops lists the tab stop numbers of a snippet in order of appearance.
func tabStops(s string) []int {
	var out []int
	for _, m := range tabStopRe.FindAllStringSubmatch(s, -1) {
		n := m[1]
		if n == "" {
			n = m[2]
		}
		v := 0
		fmt.Sscanf(n, "%d", &v)
		out = append(out, v)
	}
	return out
}

// snippetProblem checks "consecutive tab-stop numbers, each at most once (an
// optional final stop aside)".
// fromOne: the candidate inserts a whole new item (block, attribute), so no earlier stop
// exists and the numbering starts at 1; a label candidate continues the numbering of
// the header it completes.
func snippetProblem(s string, fromOne bool) string {
	stops := tabStops(s)
	seen := map[int]int{}
	var nz []int
	for _, n := range stops {
		if n == 0 {
			continue
		}
		seen[n]++
		if seen[n] == 2 {
			return fmt.Sprintf("tab stop %d used more than once", n)
		}
		nz = append(nz, n)
	}
	if len(nz) == 0 {
		return ""
	}
	sort.Ints(nz)
	if fromOne && nz[0] != 1 {
		return fmt.Sprintf("tab stops do not start at 1: %v", nz)
	}
	for i := 1; i < len(nz); i++ {
		if nz[i] != nz[i-1]+1 {
			return fmt.Sprintf("tab stops are not consecutive: %v", nz)
		}
	}
	return ""
}

func candKind(k lang.CandidateKind) string {
	names := []string{"nil", "attribute", "block", "label", "bool", "keyword", "list", "map", "number", "object", "set", "string", "tuple", "reference", "function"}
	if int(k) < len(names) {
		return names[k]
	}
	return fmt.Sprintf("kind%d", k)
}

// leftContext classifies what is immediately left of the cursor (for narrow
// signatures).
func leftContext(src string, off int) string {
	i := off
	for i > 0 && (src[i-1] == ' ' || src[i-1] == '\t') {
		i--
	}
	sp := ""
	if i != off {
		sp = "+blank"
	}
	if i == 0 {
		return "bof" + sp
	}
	c := src[i-1]
	switch {
	case c == '\n' || c == '\r':
		return "newline" + sp
	case c == '_' || c >= '0' && c <= '9' || c >= 'a' && c <= 'z' || c >= 'A' && c <= 'Z' || c >= 0x80:
		return "word" + sp
	}
	return fmt.Sprintf("%q", string(c)) + sp
}

const hardLimit = 100

func oracleCandidates(c *caseCtx, q core.Query, r core.Result) {
	if (q.Kind != core.QCompletion && q.Kind != core.QCompletionPrefill) || r.Panic != nil || r.Err != nil {
		return
	}
	cands, ok := r.Value.(lang.Candidates)
	if !ok {
		return
	}
	src := c.WS.Paths[q.Path].Files[q.File]
	tabs := c.Env.Tables[q.Path]
	cur := q.Pos.Byte
	lctx := leftContext(src, cur)
	if len(cands.List) > hardLimit {
		c.Rep.Violation(c.witness(fmt.Sprintf("LIMIT %s more-than-%d-candidates", q.Kind, hardLimit),
			fmt.Sprintf("%d candidates returned, limit is %d", len(cands.List), hardLimit), q, nil))
	}
	kinds := map[string]bool{}
	for i, cand := range cands.List {
		k := candKind(cand.Kind)
		kinds[k] = true
		te := cand.TextEdit
		viol := func(class, what string) {
			sig := fmt.Sprintf("CAND %s kind=%s left=%s", class, k, lctx)
			c.Rep.Violation(c.witness(sig, fmt.Sprintf("candidate #%d %q (%s): %s", i, cand.Label, k, what), q, func(w *runner.Witness) {
				w.Observed = fmt.Sprintf("edit range %s NewText=%q Snippet=%q", fmtRange(te.Range), te.NewText, te.Snippet)
			}))
		}
		if te.Range.Filename != q.File {
			viol("edit-other-file", fmt.Sprintf("edit is for file %q, requested %q", te.Range.Filename, q.File))
			continue
		}
		if p := postab.CheckRange(tabs, te.Range); p != "" {
			viol("edit-range-malformed:"+problemClass(p), p)
			continue
		}
		if te.Range.Start.Byte > cur {
			viol("edit-starts-after-cursor", fmt.Sprintf("edit starts at byte %d, cursor at %d", te.Range.Start.Byte, cur))
		}
		if te.Range.End.Byte < cur {
			gap := src[te.Range.End.Byte:cur]
			if strings.Trim(gap, " \t") != "" {
				viol("edit-ends-before-cursor", fmt.Sprintf("edit ends at byte %d, cursor at %d, %q lies between", te.Range.End.Byte, cur, gap))
			}
		}
		if tabStopRe.MatchString(te.NewText) {
			viol("newtext-has-tabstop", fmt.Sprintf("plain text form %q contains tab-stop syntax", te.NewText))
		}
		if p := snippetProblem(te.Snippet, k == "block" || k == "attribute"); p != "" {
			pf := ""
			if q.Kind == core.QCompletionPrefill {
				pf = "+prefill"
			}
			sig := fmt.Sprintf("CAND snippet-tabstops%s kind=%s %s", pf, k, strings.SplitN(p, ":", 2)[0])
			c.Rep.Violation(c.witness(sig, fmt.Sprintf("candidate #%d %q: snippet %q: %s", i, cand.Label, te.Snippet, p), q, nil))
		}
		for _, ate := range cand.AdditionalTextEdits {
			if ate.Range.Filename != q.File {
				viol("additional-edit-other-file", "additional edit for another file")
			} else if p := postab.CheckRange(tabs, ate.Range); p != "" {
				viol("additional-edit-range-malformed", p)
			}
		}
	}
	// limit / completeness against the library's own unlimited answer
	if len(cands.List) >= 20 && q.MaxCandidates == 0 {
		q2 := q
		q2.MaxCandidates = 1 << 30
		r2 := c.Env.Run(q2)
		c.Rep.Count("unlimited_reruns", 1)
		if full, ok := r2.Value.(lang.Candidates); ok && r2.Panic == nil {
			popClass := "below"
			switch {
			case len(full.List) > hardLimit:
				popClass = "above"
			case len(full.List) == hardLimit:
				popClass = "at"
			}
			c.Rep.Distinct("population_classes", popClass)
			if cands.IsComplete && len(full.List) > len(cands.List) {
				ks := []string{}
				for k := range kinds {
					ks = append(ks, k)
				}
				sort.Strings(ks)
				sig := fmt.Sprintf("COMPLETE-FLAG marked-complete-but-truncated kinds=%s", strings.Join(ks, ","))
				c.Rep.Violation(c.witness(sig, fmt.Sprintf("list of %d candidates is marked complete, but the same query without the limit yields %d", len(cands.List), len(full.List)), q, nil))
			}
			if len(full.List) <= hardLimit && len(full.List) != len(cands.List) {
				c.Rep.Violation(c.witness("LIMIT lists-differ-below-limit", fmt.Sprintf("limited list has %d entries, unlimited %d (both below the limit)", len(cands.List), len(full.List)), q, nil))
			}
		}
	}
	// the same contract at a lowered limit (verif hook): populations "above the limit" for every
	// producer of candidates, hooks included, without needing > 100 of each
	nHook := 0
	for _, cand := range cands.List {
		if isHookCandidate(cand) {
			nHook++
		}
	}
	// (with hook candidates in the list the limit is put right behind them: hooks and the
	// constraint's own candidates share one budget)
	if q.MaxCandidates == 0 && len(cands.List) >= 3 && len(cands.List) < hardLimit && (q.Pos.Byte%3 == 0 || (nHook > 0 && nHook+1 < len(cands.List))) && core.HooksEnabled {
		k := 2 + (q.Pos.Byte/3)%3 // (below 2 the two extension attributes alone exceed it; irrelevant for the real limit)
		if nHook > 0 && nHook+1 < len(cands.List) {
			k = nHook + 1
		}
		if k >= len(cands.List) {
			k = len(cands.List) - 1
		}
		q3 := q
		q3.MaxCandidates = uint(k)
		r3 := c.Env.Run(q3)
		c.Rep.Count("lowered_limit_reruns", 1)
		if low, ok := r3.Value.(lang.Candidates); ok && r3.Panic == nil {
			ks := []string{}
			for kk := range kinds {
				ks = append(ks, kk)
			}
			sort.Strings(ks)
			if len(low.List) > k {
				c.Rep.Violation(c.witness("LIMIT exceeded-at-lowered-limit kinds="+strings.Join(ks, ","), fmt.Sprintf("with the limit set to %d the list has %d entries (%d without that limit)", k, len(low.List), len(cands.List)), q, nil))
			}
			if low.IsComplete {
				c.Rep.Violation(c.witness("COMPLETE-FLAG marked-complete-but-truncated at-lowered-limit kinds="+strings.Join(ks, ","), fmt.Sprintf("with the limit set to %d the list of %d (of %d) candidates is marked complete", k, len(low.List), len(cands.List)), q, nil))
			}
			c.Rep.Distinct("population_classes", "above(lowered)")
		}
	}
	// an attribute value with completion hooks is never complete: a hook may add more
	// as the user types, whatever it returned (or failed to return) this time
	// (only lists of value candidates: on broken text the library may answer a value
	// position with the body's attribute / block names)
	if cands.IsComplete && !kinds["attribute"] && !kinds["block"] && !kinds["label"] {
		if pc := c.Env.PathCtx[q.Path]; pc != nil && pc.Schema != nil && pc.Files[q.File] != nil {
			if body, ok := pc.Files[q.File].Body.(*hclsyntax.Body); ok {
				cls := model.Classify(pc.Files[q.File].Bytes, body, model.EffRoot(pc.Schema), cur, "", false, false)
				if cls.Kind == "value" && cls.Attr != nil && cls.AttrSchema != nil && len(cls.AttrSchema.CompletionHooks) > 0 && !cls.InDyn && len(cands.List) > 0 {
					c.Rep.Violation(c.witness("COMPLETE-FLAG marked-complete-for-attribute-with-hooks", fmt.Sprintf("the value of %q has completion hooks %v, the list of %d candidates is marked complete", cls.Attr.Name, cls.AttrSchema.CompletionHooks, len(cands.List)), q, nil))
				}
			}
		}
	}
	// hook candidates => incomplete
	if cands.IsComplete {
		for _, cand := range cands.List {
			if isHookCandidate(cand) {
				c.Rep.Violation(c.witness("COMPLETE-FLAG marked-complete-with-hook-candidates", fmt.Sprintf("list contains hook candidate %q but is marked complete", cand.Label), q, nil))
				break
			}
		}
	}
	if len(cands.List) > 0 {
		pf := "plain"
		if q.Kind == core.QCompletionPrefill {
			pf = "prefill"
		}
		for k := range kinds {
			c.Rep.NonTrivial(k + "|" + pf + "|" + lctx + "|" + c.nodeKindAt(q.Path, q.File, cur) + "|" + c.Spec.Mut.Kind)
		}
		c.Rep.Count("candidates_checked", int64(len(cands.List)))
		if c.Rep.NumSamples() < 6 {
			cand := cands.List[0]
			c.Rep.Sample(map[string]interface{}{"source": c.Spec.Recipe.String(), "query": q.String(), "left_of_cursor": lctx, "n_candidates": len(cands.List), "is_complete": cands.IsComplete,
				"first": map[string]string{"label": cand.Label, "kind": candKind(cand.Kind), "range": fmtRange(cand.TextEdit.Range), "newtext": cand.TextEdit.NewText, "snippet": cand.TextEdit.Snippet}})
		}
	}
}

// ---------------------------------------------------------------- C12 invariants

func oracleHover(c *caseCtx, q core.Query, r core.Result) {
	if q.Kind != core.QHover || r.Panic != nil {
		return
	}
	hd, ok := r.Value.(*lang.HoverData)
	if !ok || hd == nil {
		c.Rep.Count("hover_nothing", 1)
		return
	}
	if r.Err != nil {
		c.Rep.Violation(c.witness("HOVER data-and-error", "hover returned both data and an error: "+r.Err.Error(), q, nil))
	}
	nk := c.nodeKindAt(q.Path, q.File, q.Pos.Byte)
	if strings.TrimSpace(hd.Content.Value) == "" {
		c.Rep.Violation(c.witness("HOVER empty-content node="+nk, "hover data with empty content", q, nil))
	}
	if hd.Range.Filename != q.File {
		c.Rep.Violation(c.witness("HOVER other-file node="+nk, fmt.Sprintf("hover range is for file %q", hd.Range.Filename), q, nil))
		return
	}
	if p := postab.CheckRange(c.Env.Tables[q.Path], hd.Range); p != "" {
		c.Rep.Violation(c.witness("HOVER range-malformed node="+nk, p, q, nil))
		return
	}
	if !(hd.Range.Start.Byte <= q.Pos.Byte && q.Pos.Byte <= hd.Range.End.Byte) {
		c.Rep.Violation(c.witness("HOVER range-does-not-contain-cursor node="+nk,
			fmt.Sprintf("hover range %s does not contain the cursor at byte %d", fmtRange(hd.Range), q.Pos.Byte), q, func(w *runner.Witness) {
				w.Observed = fmtRange(hd.Range) + " content: " + trunc(hd.Content.Value, 300)
			}))
	}
	if q.Pos.Byte == hd.Range.End.Byte && hd.Range.End.Byte != hd.Range.Start.Byte {
		c.Rep.Count("hover_cursor_at_range_end", 1)
	}
	c.Rep.Count("hover_data", 1)
	c.Rep.NonTrivial("hover|" + nk + "|" + c.Spec.Mut.Kind + "|" + firstWord(hd.Content.Value))
	if c.Rep.NumSamples() < 6 {
		c.Rep.Sample(map[string]interface{}{"source": c.Spec.Recipe.String(), "query": q.String(), "node_under_cursor": nk, "hover_range": fmtRange(hd.Range), "content": trunc(hd.Content.Value, 160)})
	}
}

func firstWord(s string) string {
	s = strings.TrimLeft(s, "`*_ \n")
	for i, r := range s {
		if r == ' ' || r == '\n' || r == '`' || r == '*' {
			return s[:i]
		}
		if i > 24 {
			return s[:i]
		}
	}
	return s
}

// ---------------------------------------------------------------- C13 invariants

func oracleTokens(c *caseCtx, q core.Query, r core.Result) {
	if q.Kind != core.QSemTokens || r.Panic != nil || r.Err != nil {
		return
	}
	toks, ok := r.Value.([]lang.SemanticToken)
	if !ok {
		return
	}
	supported := map[lang.SemanticTokenType]bool{}
	for _, t := range lang.SupportedSemanticTokenTypes {
		supported[t] = true
	}
	tabs := c.Env.Tables[q.Path]
	types := map[string]bool{}
	for i, t := range toks {
		types[string(t.Type)] = true
		desc := fmt.Sprintf("token #%d %s %s", i, t.Type, fmtRange(t.Range))
		if !supported[t.Type] {
			c.Rep.Violation(c.witness("TOKEN unadvertised-type "+string(t.Type), desc+": type is not in SupportedSemanticTokenTypes", q, nil))
		}
		if t.Range.Filename != q.File {
			c.Rep.Violation(c.witness("TOKEN other-file type="+string(t.Type), desc+": token for another file", q, nil))
			continue
		}
		origin := "computed"
		if c.nodeRangeSet(q.Path, q.File)[t.Range] {
			origin = "parser-node-range" // the range of an AST node the parser (recovery) produced, passed through
		}
		if p := postab.CheckRange(tabs, t.Range); p != "" {
			c.Rep.Violation(c.witness("TOKEN range-malformed type="+string(t.Type)+" "+problemClass(p)+" "+origin, desc+": "+p, q, nil))
			continue
		}
		if t.Range.End.Byte <= t.Range.Start.Byte {
			c.Rep.Violation(c.witness("TOKEN empty type="+string(t.Type)+" "+origin, desc+": empty token", q, nil))
		}
		if i > 0 {
			prev := toks[i-1]
			if prev.Range.Start.Byte > t.Range.Start.Byte {
				c.Rep.Violation(c.witness("TOKEN unsorted types="+string(prev.Type)+","+string(t.Type), fmt.Sprintf("%s precedes token %s %s", desc, prev.Type, fmtRange(prev.Range)), q, nil))
			} else if prev.Range.End.Byte > t.Range.Start.Byte {
				c.Rep.Violation(c.witness("TOKEN overlap types="+string(prev.Type)+","+string(t.Type), fmt.Sprintf("%s overlaps token %s %s", desc, prev.Type, fmtRange(prev.Range)), q, nil))
			}
		}
	}
	c.Rep.Count("tokens_checked", int64(len(toks)))
	if len(types) >= 3 {
		ts := []string{}
		for t := range types {
			ts = append(ts, strings.TrimPrefix(t, "hcl-"))
		}
		sort.Strings(ts)
		c.Rep.NonTrivial(c.Spec.Recipe.String() + "|" + c.Spec.File + "|" + c.Spec.Mut.String())
		c.Rep.Distinct("token_type_sets", strings.Join(ts, ","))
		if c.Rep.NumSamples() < 6 {
			c.Rep.Sample(map[string]interface{}{"source": c.Spec.Recipe.String(), "file": q.File, "mutation": c.Spec.Mut.String(), "tokens": len(toks), "types": ts})
		}
	}
}

// ---------------------------------------------------------------- C12 element-specific half

// oracleHoverElements: on an attribute name, block type or block label the
// hover names that element, carries the description the (model's) effective
// schema gives it and has the whole attribute / the type keyword / the label
// as range; inside a value the range stays within the attribute's expression.
func oracleHoverElements(c *caseCtx, q core.Query, r core.Result) {
	if q.Kind != core.QHover || r.Panic != nil || r.PathErr != nil || c.WS.FailPaths[q.Path] {
		return // (a path that cannot be read answers with its error)
	}
	pc := c.Env.PathCtx[q.Path]
	if pc == nil || pc.Schema == nil || pc.Files[q.File] == nil {
		return
	}
	body, ok := pc.Files[q.File].Body.(*hclsyntax.Body)
	if !ok {
		return
	}
	src := pc.Files[q.File].Bytes
	cls := model.Classify(src, body, model.EffRoot(pc.Schema), q.Pos.Byte, "", false, false)
	if cls.InDyn {
		return
	}
	hd, _ := r.Value.(*lang.HoverData)
	viol := func(sig, what, exp string) {
		obs := "no hover"
		if hd != nil {
			obs = fmtRange(hd.Range) + " " + trunc(hd.Content.Value, 300)
		}
		c.Rep.Violation(c.witness(sig, what, q, func(w *runner.Witness) { w.Expected, w.Observed = exp, obs }))
	}
	contains := func(s string) bool { return s == "" || (hd != nil && strings.Contains(hd.Content.Value, s)) }
	switch cls.Kind {
	case "attr-name":
		as, how := cls.Eff.AttrSchema(cls.Attr.Name)
		if !cls.Eff.Known {
			return
		}
		if as == nil {
			if hd != nil {
				viol("HOVER-ELEMENT hover-on-unknown-attribute", fmt.Sprintf("hover on the name of attribute %q which the effective schema does not know", cls.Attr.Name), "nothing")
			}
			return
		}
		if hd == nil {
			viol("HOVER-ELEMENT missing on=attribute-name how="+how, fmt.Sprintf("no hover on the name of the known attribute %q", cls.Attr.Name), cls.Attr.Name)
			return
		}
		if hd.Range != cls.Attr.SrcRange {
			viol("HOVER-ELEMENT wrong-range on=attribute-name", fmt.Sprintf("hover on attribute name %q has range %s, the whole attribute is %s", cls.Attr.Name, fmtRange(hd.Range), fmtRange(cls.Attr.SrcRange)), fmtRange(cls.Attr.SrcRange))
		}
		if !contains(cls.Attr.Name) {
			viol("HOVER-ELEMENT content-does-not-name-element on=attribute-name", fmt.Sprintf("hover content does not name attribute %q", cls.Attr.Name), cls.Attr.Name)
		}
		if how == "attr" && !contains(as.Description.Value) {
			viol("HOVER-ELEMENT wrong-description on=attribute-name lookup="+cls.Eff.Lookup.String(), fmt.Sprintf("hover on %q does not carry the description of the effective schema", cls.Attr.Name), as.Description.Value)
		}
		c.Rep.NonTrivial("element|attribute-name|" + how + "|" + cls.Eff.Lookup.String() + "|" + c.Spec.Mut.Kind)
	case "block-type":
		if hd == nil {
			viol("HOVER-ELEMENT missing on=block-type", fmt.Sprintf("no hover on the type of the known block %q", cls.Block.Type), cls.Block.Type)
			return
		}
		if hd.Range != cls.Block.TypeRange {
			viol("HOVER-ELEMENT wrong-range on=block-type", fmt.Sprintf("hover on block type %q has range %s, the type keyword is %s", cls.Block.Type, fmtRange(hd.Range), fmtRange(cls.Block.TypeRange)), fmtRange(cls.Block.TypeRange))
		}
		if !contains(cls.Block.Type) || !contains(cls.BS.Description.Value) {
			viol("HOVER-ELEMENT content on=block-type", fmt.Sprintf("hover on block type %q does not name it / carry its description", cls.Block.Type), cls.Block.Type+" "+cls.BS.Description.Value)
		}
		c.Rep.NonTrivial("element|block-type|" + c.Spec.Mut.Kind)
	case "label":
		if cls.Label >= len(cls.BS.Labels) || cls.Label >= len(cls.Block.Labels) {
			return
		}
		lr := cls.Block.LabelRanges[cls.Label]
		if q.Pos.Byte >= lr.End.Byte {
			return
		}
		if hd == nil {
			viol("HOVER-ELEMENT missing on=label", fmt.Sprintf("no hover on label #%d of block %q", cls.Label, cls.Block.Type), cls.Block.Labels[cls.Label])
			return
		}
		if hd.Range != lr {
			viol("HOVER-ELEMENT wrong-range on=label", fmt.Sprintf("hover on label #%d of %q has range %s, the label is %s", cls.Label, cls.Block.Type, fmtRange(hd.Range), fmtRange(lr)), fmtRange(lr))
		}
		quoted := strconv.Quote(cls.Block.Labels[cls.Label])
		if !contains(cls.Block.Labels[cls.Label]) && !contains(quoted[1:len(quoted)-1]) {
			viol("HOVER-ELEMENT content-does-not-name-element on=label", "hover content does not name the label value", cls.Block.Labels[cls.Label])
		}
		ls := cls.BS.Labels[cls.Label]
		eff := model.Effective(cls.Block, cls.BS, cls.Eff)
		if ls.IsDepKey && eff.Dep != nil {
			// description of the selected dependent body (or, failing that, of the label)
			want := eff.Dep.Description.Value
			if want == "" {
				want = ls.Description.Value
			}
			// a second-level body may replace the first; accept either description
			if !contains(want) {
				alt := false
				for _, db := range cls.BS.DependentBody {
					if db.Description.Value != "" && contains(db.Description.Value) {
						alt = true
					}
				}
				if !alt {
					viol("HOVER-ELEMENT wrong-description on=dependent-label lookup="+eff.Lookup.String(), "hover on a dependency-key label does not carry the description of the selected dependent body", want)
				}
			}
		} else if !ls.IsDepKey && !contains(ls.Description.Value) {
			viol("HOVER-ELEMENT wrong-description on=label", "hover on a label does not carry the label's description", ls.Description.Value)
		}
		c.Rep.NonTrivial(fmt.Sprintf("element|label|dep=%t|%s|%s", ls.IsDepKey, eff.Lookup, c.Spec.Mut.Kind))
	case "value":
		if hd != nil && cls.Attr != nil && q.Pos.Byte >= cls.Attr.Expr.Range().Start.Byte && q.Pos.Byte < cls.Attr.Expr.Range().End.Byte {
			er := cls.Attr.Expr.Range()
			if !(hd.Range.Start.Byte >= er.Start.Byte && hd.Range.End.Byte <= er.End.Byte) && hd.Range.Filename == er.Filename {
				viol("HOVER-ELEMENT value-hover-range-outside-expression", fmt.Sprintf("hover inside the value of %q has range %s outside the expression %s", cls.Attr.Name, fmtRange(hd.Range), fmtRange(er)), fmtRange(er))
			}
			c.Rep.NonTrivial("element|value|" + exprKind(cls.Attr.Expr) + "|" + c.Spec.Mut.Kind)
		}
		// a literal operand of operators the expected type admits is a sub-expression the
		// schema can interpret: hover must describe it (valid files only)
		if ae, ok := anyExprOf(cls); ok && c.Spec.Mut.Kind == "none" && !cls.InDyn {
			if typ, ok := operandLiteralAt(cls.Attr.Expr, ae.OfType, q.Pos.Byte, 0); ok {
				c.Rep.Count("operator_operand_cursors", 1)
				if hd == nil {
					viol("HOVER-ELEMENT missing on=literal-operand-of-admitted-operator", fmt.Sprintf("no hover on a %s literal that is an operand of an operator whose result converts to the expected %s (attribute %q)", typ, ae.OfType.FriendlyName(), cls.Attr.Name), "_"+typ+"_")
				}
			}
		}
	}
}

func anyExprOf(cls model.PosClass) (schema.AnyExpression, bool) {
	if cls.Attr == nil || cls.AttrSchema == nil {
		return schema.AnyExpression{}, false
	}
	ae, ok := cls.AttrSchema.Constraint.(schema.AnyExpression)
	if !ok || ae.OfType == cty.NilType {
		return ae, false
	}
	return ae, true
}

// operandLiteralAt: is the byte strictly inside a number / bool literal that is reached from
// the expression through operators (and parentheses, template interpolations) only, each of
// whose result type the type expected at that place admits? Returns the literal's type name.
func operandLiteralAt(e hclsyntax.Expression, want cty.Type, off, depth int) (string, bool) {
	if depth > 12 || e == nil || !(e.Range().Start.Byte <= off && off < e.Range().End.Byte) {
		return "", false
	}
	switch t := e.(type) {
	case *hclsyntax.BinaryOpExpr:
		if t.Op == nil || !opFits(t.Op.Type, want) {
			return "", false
		}
		ps := t.Op.Impl.Params()
		if len(ps) != 2 {
			return "", false
		}
		if s, ok := operandLiteralAt(t.LHS, ps[0].Type, off, depth+1); ok {
			return s, depth >= 0
		}
		return operandLiteralAt(t.RHS, ps[1].Type, off, depth+1)
	case *hclsyntax.UnaryOpExpr:
		if t.Op == nil || !opFits(t.Op.Type, want) {
			return "", false
		}
		ps := t.Op.Impl.Params()
		if len(ps) != 1 {
			return "", false
		}
		return operandLiteralAt(t.Val, ps[0].Type, off, depth+1)
	case *hclsyntax.ParenthesesExpr:
		return operandLiteralAt(t.Expression, want, off, depth)
	case *hclsyntax.TemplateExpr:
		if t.IsStringLiteral() || !(want == cty.String || want == cty.DynamicPseudoType) {
			return "", false
		}
		for _, part := range t.Parts {
			if _, isOp := part.(*hclsyntax.BinaryOpExpr); isOp {
				if s, ok := operandLiteralAt(part, cty.String, off, depth+1); ok {
					return s, true
				}
			}
		}
		return "", false
	case *hclsyntax.LiteralValueExpr:
		if depth == 0 || t.Val.IsNull() || !t.Val.IsKnown() {
			return "", false // only operands: a literal that is the whole value is decided elsewhere
		}
		if !(t.Range().Start.Byte < off) {
			return "", false // strictly inside
		}
		switch {
		case t.Val.Type() == cty.Number && (want == cty.Number || want == cty.DynamicPseudoType):
			return "number", true
		case t.Val.Type() == cty.Bool && (want == cty.Bool || want == cty.DynamicPseudoType):
			return "bool", true
		}
	}
	return "", false
}

// ---------------------------------------------------------------- C13 exactness of structure tokens

type structTok struct {
	typ  lang.SemanticTokenType
	rng  hcl.Range
	mods string
}

type tokModel struct {
	want      []structTok
	exprZones []hcl.Range // expressions of schema-known attributes: value tokens may only lie here
	dynZones  []hcl.Range
}

func modsString(ms []lang.SemanticTokenModifier) string {
	out := make([]string, len(ms))
	for i, m := range ms {
		out[i] = string(m)
	}
	return strings.Join(out, ",")
}

func (m *tokModel) body(body *hclsyntax.Body, e *model.Eff, parent []lang.SemanticTokenModifier) {
	if !e.Known {
		return
	}
	for name, attr := range body.Attributes {
		as, _ := e.AttrSchema(name)
		if as == nil {
			continue
		}
		mods := append(append([]lang.SemanticTokenModifier{}, parent...), as.SemanticTokenModifiers...)
		m.want = append(m.want, structTok{lang.TokenAttrName, attr.NameRange, modsString(mods)})
		m.exprZones = append(m.exprZones, attr.Expr.Range())
	}
	for _, b := range body.Blocks {
		bs := e.Blocks[b.Type]
		if b.Type == "dynamic" && bs == nil && e.DynAncestor {
			m.dynZones = append(m.dynZones, b.Range())
			continue
		}
		if bs == nil {
			continue
		}
		bmods := append(append([]lang.SemanticTokenModifier{}, parent...), bs.SemanticTokenModifiers...)
		m.want = append(m.want, structTok{lang.TokenBlockType, b.TypeRange, modsString(bmods)})
		for i, lr := range b.LabelRanges {
			if i >= len(bs.Labels) {
				continue // surplus label: no token
			}
			lmods := append(append([]lang.SemanticTokenModifier{}, bmods...), bs.Labels[i].SemanticTokenModifiers...)
			m.want = append(m.want, structTok{lang.TokenBlockLabel, lr, modsString(lmods)})
		}
		if b.Body == nil {
			continue
		}
		ne := model.Effective(b, bs, e)
		if bs.Body == nil && ne.Dep == nil {
			continue
		}
		m.body(b.Body, ne, bmods)
	}
}

// oracleTokenStructure: exactly the schema-known attribute names, block types
// and labels carry structure tokens (with the modifiers of the element and of
// all enclosing blocks); value tokens only inside values of known attributes.
func oracleTokenStructure(c *caseCtx, q core.Query, r core.Result) {
	if q.Kind != core.QSemTokens || r.Panic != nil || r.Err != nil {
		return
	}
	toks, ok := r.Value.([]lang.SemanticToken)
	if !ok {
		return
	}
	pc := c.Env.PathCtx[q.Path]
	if pc == nil || pc.Schema == nil || pc.Files[q.File] == nil {
		return
	}
	body, ok := pc.Files[q.File].Body.(*hclsyntax.Body)
	if !ok {
		return
	}
	// parser recovery yields half blocks and unreliable expression extents:
	// exactness is decided on files the parser accepts without errors
	if _, diags := hclsyntax.ParseConfig(pc.Files[q.File].Bytes, q.File, hcl.InitialPos); diags.HasErrors() {
		c.Rep.Count("structure_skipped_files_with_parse_errors", 1)
		return
	}
	m := &tokModel{}
	m.body(body, model.EffRoot(pc.Schema), nil)
	inDyn := func(rg hcl.Range) bool {
		for _, d := range m.dynZones {
			if rangeWithin(rg, d) {
				return true
			}
		}
		return false
	}
	want := map[string]structTok{}
	for _, w := range m.want {
		want[string(w.typ)+"|"+fmtRange(w.rng)] = w
	}
	seen := map[string]bool{}
	for _, t := range toks {
		if inDyn(t.Range) {
			continue
		}
		switch t.Type {
		case lang.TokenAttrName, lang.TokenBlockType, lang.TokenBlockLabel:
			key := string(t.Type) + "|" + fmtRange(t.Range)
			w, ok := want[key]
			if !ok {
				// type declarations emit attribute-name tokens for object({ a = ... }) keys: those lie inside a value
				inValue := false
				for _, z := range m.exprZones {
					if rangeWithin(t.Range, z) {
						inValue = true
					}
				}
				if !inValue {
					c.Rep.Violation(c.witness("TOKEN-STRUCTURE extra type="+string(t.Type), fmt.Sprintf("structure token %s at %s marks something the effective schema does not know", t.Type, fmtRange(t.Range)), q, nil))
				}
				continue
			}
			seen[key] = true
			if got := modsString(t.Modifiers); got != w.mods {
				c.Rep.Violation(c.witness("TOKEN-STRUCTURE wrong-modifiers type="+string(t.Type), fmt.Sprintf("token %s at %s has modifiers [%s], the element and its enclosing blocks give [%s]", t.Type, fmtRange(t.Range), got, w.mods), q, nil))
			}
		default:
			ok := false
			for _, z := range m.exprZones {
				if rangeWithin(t.Range, z) {
					ok = true
				}
			}
			if !ok {
				c.Rep.Violation(c.witness("TOKEN-STRUCTURE value-token-outside-known-value type="+string(t.Type), fmt.Sprintf("token %s at %s does not lie inside the value of a schema-known attribute", t.Type, fmtRange(t.Range)), q, nil))
			}
		}
	}
	for key, w := range want {
		if !seen[key] && !inDyn(w.rng) {
			c.Rep.Violation(c.witness("TOKEN-STRUCTURE missing type="+string(w.typ), fmt.Sprintf("the schema-known element at %s has no %s token", fmtRange(w.rng), w.typ), q, nil))
		}
	}
	c.Rep.Count("structure_tokens_expected", int64(len(m.want)))
}

// isHookCandidate recognises the candidates produced by the harness' own completion hooks.
func isHookCandidate(cand lang.Candidate) bool {
	return cand.Detail == "from hook" || cand.Detail == "instance type" || cand.Detail == "local module" || cand.Detail == "registry module"
}

// oracleTokenCallArgs: a call whose name got a function-name token is a call the
// decoder interprets with the function's signature; every literal argument whose
// type is the parameter's type (or whose parameter is dynamically typed) is then a
// schema-known element of its own and must carry a literal token - for fixed,
// variadic and variadic-only signatures alike.
func oracleTokenCallArgs(c *caseCtx, q core.Query, r core.Result) {
	if q.Kind != core.QSemTokens || r.Panic != nil || r.Err != nil {
		return
	}
	toks, ok := r.Value.([]lang.SemanticToken)
	if !ok {
		return
	}
	pc := c.Env.PathCtx[q.Path]
	if pc == nil || pc.Files[q.File] == nil {
		return
	}
	body, ok := pc.Files[q.File].Body.(*hclsyntax.Body)
	if !ok {
		return
	}
	if _, diags := hclsyntax.ParseConfig(pc.Files[q.File].Bytes, q.File, hcl.InitialPos); diags.HasErrors() {
		return
	}
	type key struct {
		t    lang.SemanticTokenType
		s, e int
	}
	have := map[key]bool{}
	for _, t := range toks {
		have[key{t.Type, t.Range.Start.Byte, t.Range.End.Byte}] = true
	}
	hclsyntax.VisitAll(body, func(n hclsyntax.Node) hcl.Diagnostics {
		fc, ok := n.(*hclsyntax.FunctionCallExpr)
		if !ok {
			return nil
		}
		fs, known := pc.Functions[fc.Name]
		if !known || !have[key{lang.TokenFunctionName, fc.NameRange.Start.Byte, fc.NameRange.End.Byte}] {
			return nil
		}
		for i, a := range fc.Args {
			var pt cty.Type
			switch {
			case i < len(fs.Params):
				pt = fs.Params[i].Type
			case fs.VarParam != nil:
				pt = fs.VarParam.Type
			default:
				continue // surplus argument
			}
			var lt cty.Type
			var tt lang.SemanticTokenType
			switch e := a.(type) {
			case *hclsyntax.LiteralValueExpr:
				if e.Val.IsNull() {
					continue
				}
				lt = e.Val.Type()
				switch lt {
				case cty.Number:
					tt = lang.TokenNumber
				case cty.Bool:
					tt = lang.TokenBool
				default:
					continue
				}
			case *hclsyntax.TemplateExpr:
				if !e.IsStringLiteral() {
					continue
				}
				lt, tt = cty.String, lang.TokenString
			default:
				continue
			}
			if pt != cty.DynamicPseudoType && pt != lt {
				continue // conversions are the library's business
			}
			shape := "fixed"
			if i >= len(fs.Params) {
				shape = "variadic"
				if len(fs.Params) == 0 {
					shape = "variadic-only"
				}
			}
			c.Rep.NonTrivial("call-arg|" + shape + "|" + string(tt))
			ar := a.Range()
			if !have[key{tt, ar.Start.Byte, ar.End.Byte}] {
				c.Rep.Violation(c.witness("TOKEN-CALL-ARG missing type="+string(tt)+" param="+shape, fmt.Sprintf("the call of %s at %s has a function-name token, but its literal argument #%d at %s has no %s token", fc.Name, fmtRange(fc.NameRange), i, fmtRange(ar), tt), q, nil))
			}
		}
		return nil
	})
}

// governedMaps collects the object literals interpreted as maps: by a Map constraint or
// by an any-expression / literal type of a map type, reached through collection constraints.
type governedMap struct {
	oc   *hclsyntax.ObjectConsExpr
	elem cty.Type // type every item value is read with
}

func governedMaps(e hclsyntax.Expression, c schema.Constraint, depth int, out *[]governedMap) {
	if depth > 8 || c == nil {
		return
	}
	var typeOf func(t cty.Type, e hclsyntax.Expression, d int)
	typeOf = func(t cty.Type, e hclsyntax.Expression, d int) {
		if d > 8 {
			return
		}
		switch x := e.(type) {
		case *hclsyntax.ObjectConsExpr:
			if t.IsMapType() {
				*out = append(*out, governedMap{x, t.ElementType()})
				for _, it := range x.Items {
					typeOf(t.ElementType(), it.ValueExpr, d+1)
				}
			}
		case *hclsyntax.TupleConsExpr:
			if t.IsListType() || t.IsSetType() {
				for _, el := range x.Exprs {
					typeOf(t.ElementType(), el, d+1)
				}
			}
		}
	}
	switch cons := c.(type) {
	case schema.AnyExpression:
		typeOf(cons.OfType, e, depth)
	case schema.LiteralType:
		typeOf(cons.Type, e, depth)
	case schema.Map:
		if oc, ok := e.(*hclsyntax.ObjectConsExpr); ok {
			// (only element constraints that read a value by its type)
			switch ec := cons.Elem.(type) {
			case schema.AnyExpression:
				*out = append(*out, governedMap{oc, ec.OfType})
			case schema.LiteralType:
				*out = append(*out, governedMap{oc, ec.Type})
			}
			for _, it := range oc.Items {
				governedMaps(it.ValueExpr, cons.Elem, depth+1, out)
			}
		}
	case schema.List:
		if tc, ok := e.(*hclsyntax.TupleConsExpr); ok {
			for _, el := range tc.Exprs {
				governedMaps(el, cons.Elem, depth+1, out)
			}
		}
	case schema.Set:
		if tc, ok := e.(*hclsyntax.TupleConsExpr); ok {
			for _, el := range tc.Exprs {
				governedMaps(el, cons.Elem, depth+1, out)
			}
		}
	}
}

// oracleTokenMapItems: the items of one map literal are interpreted alike - if the
// literal value of one item carries its literal token, the literal value (of the same
// kind) of every other item does too, whatever its key looks like.
func oracleTokenMapItems(c *caseCtx, q core.Query, r core.Result) {
	if q.Kind != core.QSemTokens || r.Panic != nil || r.Err != nil {
		return
	}
	toks, ok := r.Value.([]lang.SemanticToken)
	if !ok {
		return
	}
	pc := c.Env.PathCtx[q.Path]
	if pc == nil || pc.Schema == nil || pc.Files[q.File] == nil || c.WS.FailPaths[q.Path] {
		return
	}
	body, ok := pc.Files[q.File].Body.(*hclsyntax.Body)
	if !ok {
		return
	}
	if _, diags := hclsyntax.ParseConfig(pc.Files[q.File].Bytes, q.File, hcl.InitialPos); diags.HasErrors() {
		return
	}
	type key struct {
		t    lang.SemanticTokenType
		s, e int
	}
	have := map[key]bool{}
	for _, t := range toks {
		have[key{t.Type, t.Range.Start.Byte, t.Range.End.Byte}] = true
	}
	var sites []valueSite
	valueSites(body, model.EffRoot(pc.Schema), &sites)
	for _, vs := range sites {
		var maps []governedMap
		governedMaps(vs.attr.Expr, vs.schema.Constraint, 0, &maps)
		for _, gm := range maps {
			oc := gm.oc
			with, without := map[lang.SemanticTokenType]int{}, map[lang.SemanticTokenType][]hcl.Range{}
			for _, it := range oc.Items {
				// (an item whose key is a literal of another type than string - 7, true, null - is
				// not a map item the library reads)
				if kv, _ := it.KeyExpr.Value(nil); kv.IsKnown() && (kv.IsNull() || kv.Type() != cty.String) {
					continue
				}
				// (nor is an item whose key is written in neither of the two forms a key has - a
				// bare or quoted name, or a parenthesised expression: a call or a dotted
				// traversal in key position, as single-token edits of a valid file produce them)
				if ke, ok := it.KeyExpr.(*hclsyntax.ObjectConsKeyExpr); ok {
					switch w := ke.Wrapped.(type) {
					case *hclsyntax.ScopeTraversalExpr:
						if len(w.Traversal) != 1 {
							continue
						}
					case *hclsyntax.TemplateExpr:
						if !w.IsStringLiteral() {
							continue
						}
					case *hclsyntax.ParenthesesExpr, *hclsyntax.LiteralValueExpr:
					default:
						continue
					}
				}
				var tt lang.SemanticTokenType
				switch e := it.ValueExpr.(type) {
				case *hclsyntax.LiteralValueExpr:
					if e.Val.IsNull() {
						continue
					}
					switch e.Val.Type() {
					case cty.Number:
						tt = lang.TokenNumber
					case cty.Bool:
						tt = lang.TokenBool
					default:
						continue
					}
				case *hclsyntax.TemplateExpr:
					if !e.IsStringLiteral() {
						continue
					}
					tt = lang.TokenString
				default:
					continue
				}
				// the literal must be of the element type itself (conversions are the library's business)
				want := map[lang.SemanticTokenType]cty.Type{lang.TokenNumber: cty.Number, lang.TokenBool: cty.Bool, lang.TokenString: cty.String}[tt]
				if gm.elem != cty.DynamicPseudoType && gm.elem != want {
					continue
				}
				vr := it.ValueExpr.Range()
				if have[key{tt, vr.Start.Byte, vr.End.Byte}] {
					with[tt]++
				} else {
					without[tt] = append(without[tt], vr)
				}
			}
			for tt, missing := range without {
				if with[tt] > 0 {
					c.Rep.Violation(c.witness("TOKEN-MAP-ITEM missing type="+string(tt), fmt.Sprintf("in the map literal at %s (value of %q) %d item value(s) carry a %s token, the value at %s of the same kind does not", fmtRange(oc.Range()), vs.attr.Name, with[tt], tt, fmtRange(missing[0])), q, nil))
				}
			}
			if len(with) > 0 {
				c.Rep.NonTrivial("map-items|" + fmt.Sprint(len(oc.Items) > 2))
			}
		}
	}
}
