package props

import (
	"fmt"
	"math/rand"
	"reflect"
	"strings"

	"github.com/hashicorp/hcl-lang/lang"
	"github.com/hashicorp/hcl-lang/schema"
	"github.com/zclconf/go-cty/cty"
	"github.com/zclconf/go-cty/cty/function"

	"verifharness/internal/dump"
	"verifharness/internal/runner"
)

// C17: Copy() on any schema value yields an equal, fully independent value.
// Reflection driven: field lists are read from the struct definitions at run
// time, so a field added tomorrow is filled and compared without touching the
// harness.

type c17 struct{}

func (c17) ID() string { return "C17" }
func (c17) Meta() Meta {
	return Meta{
		Level:       "exploration",
		Rule:        "for each of the schema/lang types with a Copy method, a reflective filler populates EVERY field of every reachable struct (interfaces from registries of all implementations; maps and slices with non-nil elements, slices with spare capacity, every seventh container empty but non-nil, and in about a third of the fillings one pointer stored under two keys / at two indexes of a container, as dependent bodies registered under several keys are), Copy() is called through reflection under recover(), the canonical dumps of original and copy must be equal (nil and empty containers are equal), no map / slice backing array / pointed-to schema struct of the copy may overlap the original's (constraints, addresses and cty values exempt), and adding/replacing entries in the copy's containers must leave the original's dump unchanged and vice versa. The field enumeration is exhaustive (all fields of all struct types reachable from the root types, listed in the evidence); fillings are seeded. distinct non-trivial = distinct (root type, field path) container/pointer positions that were checked for independence.",
		Assumptions: []string{"slices and maps are filled with non-nil elements only (a nil *Targetable inside TargetableAs is not a schema value)", "constraints, schema.Address/lang.Address and cty types/values are immutable by convention and may be shared, as the property states"},
		Floor:       map[string]int{"quick": 40, "thorough": 40},
		CaseBudget:  60,
		MaxWorkers:  4,
	}
}

var (
	constraintT = reflect.TypeOf((*schema.Constraint)(nil)).Elem()
	addrStepT   = reflect.TypeOf((*schema.AddrStep)(nil)).Elem()
	defaultT    = reflect.TypeOf((*schema.Default)(nil)).Elem()
	langStepT   = reflect.TypeOf((*lang.AddressStep)(nil)).Elem()
	ctyTypeRT   = reflect.TypeOf(cty.Type{})
	ctyValueRT  = reflect.TypeOf(cty.Value{})
	schemaAddrT = reflect.TypeOf(schema.Address{})
	langAddrT   = reflect.TypeOf(lang.Address{})
)

// c17Roots are zero values of every type that has a Copy method.
func c17Roots() []reflect.Type {
	vals := []interface{}{
		&schema.LabelSchema{}, &schema.BodyExtensions{}, &schema.BodySchema{}, &schema.DocsLink{}, &schema.Target{}, &schema.Targetable{},
		&schema.ReferenceAddrSchema{}, &schema.FunctionSignature{}, &schema.AttributeSchema{}, &schema.AttributeAddrSchema{}, &schema.PathTarget{},
		&schema.BlockAddrSchema{}, &schema.BlockAsTypeOf{}, &schema.BlockSchema{},
		schema.Object{}, schema.ObjectAttributes{}, schema.ImpliedOrigin{}, schema.Address{}, schema.Tuple{}, schema.OneOf{}, schema.LiteralValue{},
		schema.Keyword{}, schema.AnyExpression{}, schema.Reference{}, schema.List{}, schema.TypeDeclaration{}, schema.Map{}, schema.LiteralType{}, schema.Set{},
		lang.CompletionHooks{}, lang.SemanticTokenModifiers{}, lang.Address{},
	}
	var out []reflect.Type
	for _, v := range vals {
		out = append(out, reflect.TypeOf(v))
	}
	return out
}

type filler struct {
	r        *rand.Rand
	n        int
	unfilled map[string]bool
	fields   map[string]bool // "Type.Field" of every struct field visited
	aliased  int             // pointers deliberately stored twice in one container
	empties  int             // containers left empty but non-nil
}

func (f *filler) id(p string) string { f.n++; return fmt.Sprintf("%s%d", p, f.n) }

var constraintImpls = []reflect.Type{
	reflect.TypeOf(schema.AnyExpression{}), reflect.TypeOf(schema.Keyword{}), reflect.TypeOf(schema.List{}), reflect.TypeOf(schema.LiteralType{}),
	reflect.TypeOf(schema.LiteralValue{}), reflect.TypeOf(schema.Map{}), reflect.TypeOf(schema.Object{}), reflect.TypeOf(schema.OneOf{}),
	reflect.TypeOf(schema.Reference{}), reflect.TypeOf(schema.Set{}), reflect.TypeOf(schema.Tuple{}), reflect.TypeOf(schema.TypeDeclaration{}),
}
var addrStepImpls = []reflect.Type{reflect.TypeOf(schema.StaticStep{}), reflect.TypeOf(schema.LabelStep{}), reflect.TypeOf(schema.AttrNameStep{}), reflect.TypeOf(schema.AttrValueStep{})}
var langStepImpls = []reflect.Type{reflect.TypeOf(lang.RootStep{}), reflect.TypeOf(lang.AttrStep{}), reflect.TypeOf(lang.IndexStep{})}

var ctyTypes = []cty.Type{cty.String, cty.Number, cty.Bool, cty.List(cty.Bool), cty.Map(cty.String), cty.Object(map[string]cty.Type{"a": cty.String}), cty.DynamicPseudoType, cty.Tuple([]cty.Type{cty.String, cty.Number})}
var ctyValues = []cty.Value{cty.StringVal("x"), cty.NumberIntVal(3), cty.True, cty.ListVal([]cty.Value{cty.StringVal("l")}), cty.ObjectVal(map[string]cty.Value{"k": cty.NumberIntVal(1)}), cty.NullVal(cty.String)}

func (f *filler) fill(v reflect.Value, depth int, path string) {
	t := v.Type()
	switch t {
	case ctyTypeRT:
		v.Set(reflect.ValueOf(ctyTypes[f.r.Intn(len(ctyTypes))]))
		return
	case ctyValueRT:
		v.Set(reflect.ValueOf(ctyValues[f.r.Intn(len(ctyValues))]))
		return
	}
	switch v.Kind() {
	case reflect.Bool:
		// random, so that two bool fields of one struct differ in about half of
		// the fillings (a copy that cross-wires two flags is then unequal)
		v.SetBool(f.r.Intn(2) == 0)
	case reflect.Int, reflect.Int8, reflect.Int16, reflect.Int32, reflect.Int64:
		v.SetInt(int64(1 + f.r.Intn(5)))
	case reflect.Uint, reflect.Uint8, reflect.Uint16, reflect.Uint32, reflect.Uint64:
		v.SetUint(uint64(1 + f.r.Intn(5)))
	case reflect.Float32, reflect.Float64:
		v.SetFloat(1.5)
	case reflect.String:
		v.SetString(f.id(strings.ToLower(t.Name()) + "_"))
	case reflect.Ptr:
		nv := reflect.New(t.Elem())
		if depth > 0 {
			f.fill(nv.Elem(), depth-1, path)
		} else {
			f.shallow(nv.Elem())
		}
		v.Set(nv)
	case reflect.Struct:
		for i := 0; i < v.NumField(); i++ {
			sf := t.Field(i)
			f.fields[t.String()+"."+sf.Name] = true
			if !v.Field(i).CanSet() {
				f.unfilled[t.String()+"."+sf.Name+" (unexported)"] = true
				continue
			}
			f.fill(v.Field(i), depth, path+"."+sf.Name)
		}
	case reflect.Slice:
		n := 1 + f.r.Intn(3)
		if depth <= 0 {
			n = 1
		}
		if f.r.Intn(7) == 0 {
			n = 0 // empty but allocated (spare capacity below), as NewBodySchema()-style constructors leave it
			f.empties++
		}
		spare := f.r.Intn(3)
		if n == 0 {
			spare = 1 + f.r.Intn(2)
		}
		s := reflect.MakeSlice(t, n, n+spare)
		for i := 0; i < n; i++ {
			if i > 0 && t.Elem().Kind() == reflect.Ptr && f.r.Intn(4) == 0 {
				s.Index(i).Set(s.Index(i - 1)) // the same pointer twice
				f.aliased++
				continue
			}
			f.fill(s.Index(i), depth-1, path+"[]")
		}
		v.Set(s)
	case reflect.Map:
		m := reflect.MakeMap(t)
		n := 1 + f.r.Intn(3)
		if depth <= 0 {
			n = 1
		}
		if f.r.Intn(7) == 0 {
			n = 0 // empty, non-nil
			f.empties++
		}
		var prevElem reflect.Value
		for i := 0; i < n; i++ {
			k := reflect.New(t.Key()).Elem()
			f.fill(k, 0, path+"{key}")
			// one pointed-to value registered under two keys (legal, and common for
			// dependent bodies: with and without an optional key attribute)
			if i > 0 && t.Elem().Kind() == reflect.Ptr && f.r.Intn(3) == 0 {
				m.SetMapIndex(k, prevElem)
				f.aliased++
				continue
			}
			e := reflect.New(t.Elem()).Elem()
			f.fill(e, depth-1, path+"{}")
			m.SetMapIndex(k, e)
			prevElem = e
		}
		v.Set(m)
	case reflect.Interface:
		var impls []reflect.Type
		switch t {
		case constraintT:
			impls = constraintImpls
		case addrStepT:
			impls = addrStepImpls
		case langStepT:
			impls = langStepImpls
		case defaultT:
			impls = []reflect.Type{reflect.TypeOf(schema.DefaultValue{})}
		default:
			f.unfilled[path+" ("+t.String()+")"] = true
			return
		}
		it := impls[f.r.Intn(len(impls))]
		if depth <= 0 && t == constraintT {
			// terminate recursion with leaf constraints
			it = []reflect.Type{reflect.TypeOf(schema.AnyExpression{}), reflect.TypeOf(schema.Keyword{}), reflect.TypeOf(schema.LiteralType{}), reflect.TypeOf(schema.TypeDeclaration{})}[f.r.Intn(4)]
		}
		nv := reflect.New(it).Elem()
		f.fill(nv, depth-1, path)
		v.Set(nv)
	case reflect.Func:
		// no func typed fields in schema structs today; listed if one appears
		f.unfilled[path+" (func)"] = true
	default:
		f.unfilled[path+" ("+v.Kind().String()+")"] = true
	}
}

// shallow fills only scalar fields (used at the depth limit so that pointers
// in containers are non-nil but small).
func (f *filler) shallow(v reflect.Value) {
	if v.Kind() != reflect.Struct {
		return
	}
	t := v.Type()
	for i := 0; i < v.NumField(); i++ {
		fv := v.Field(i)
		if !fv.CanSet() {
			continue
		}
		switch fv.Kind() {
		case reflect.Bool, reflect.String, reflect.Int, reflect.Int64, reflect.Uint, reflect.Uint64:
			f.fill(fv, 0, t.Name()+"."+t.Field(i).Name)
		default:
			if fv.Type() == ctyTypeRT || fv.Type() == ctyValueRT {
				f.fill(fv, 0, "")
			}
		}
	}
}

func c17Params(tier string) int {
	if tier == "thorough" {
		return 20000
	}
	return 1500
}

func (p c17) NumUnits(tier string, seed int64) int { return len(c17Roots()) }

var c17DumpOpts = dump.Options{NilEmptyEqual: true, FuncIdentity: true}

// exemptShared: values the property allows to be shared.
func exemptShared(t reflect.Type) bool {
	if t == ctyTypeRT || t == ctyValueRT || t == schemaAddrT || t == langAddrT {
		return true
	}
	if t.Implements(constraintT) && t.Kind() != reflect.Interface {
		return true
	}
	return t == constraintT || t == addrStepT || t == langStepT || t == defaultT
}

type memRegion struct {
	lo, hi uintptr
}

func regionOf(v reflect.Value) (memRegion, bool) {
	switch v.Kind() {
	case reflect.Map, reflect.Ptr:
		if v.IsNil() {
			return memRegion{}, false
		}
		p := v.Pointer()
		return memRegion{p, p + 1}, true
	case reflect.Slice:
		if v.IsNil() || v.Cap() == 0 {
			return memRegion{}, false
		}
		p := v.Pointer()
		return memRegion{p, p + uintptr(v.Cap())*v.Type().Elem().Size()}, true
	}
	return memRegion{}, false
}

// aliasWalk walks original and copy in parallel and reports shared containers.
func aliasWalk(o, c reflect.Value, path string, isRoot bool, report func(path, what string), visit func(path string)) {
	if !o.IsValid() || !c.IsValid() || o.Type() != c.Type() {
		return
	}
	t := o.Type()
	if !isRoot && exemptShared(t) {
		return
	}
	switch o.Kind() {
	case reflect.Ptr:
		if o.IsNil() || c.IsNil() {
			return
		}
		if t.Elem().Kind() == reflect.Struct {
			visit(path)
			if o.Pointer() == c.Pointer() {
				report(path, "the copy points to the very same "+t.Elem().String()+" as the original")
				return
			}
		}
		aliasWalk(o.Elem(), c.Elem(), path, false, report, visit)
	case reflect.Struct:
		if strings.HasPrefix(t.PkgPath(), "github.com/zclconf") {
			return
		}
		for i := 0; i < o.NumField(); i++ {
			aliasWalk(o.Field(i), c.Field(i), path+"."+t.Field(i).Name, false, report, visit)
		}
	case reflect.Map:
		if o.IsNil() || c.IsNil() {
			return
		}
		visit(path)
		if o.Pointer() == c.Pointer() {
			report(path, "the copy shares the map with the original")
			return
		}
		it := o.MapRange()
		for it.Next() {
			cv := c.MapIndex(it.Key())
			if cv.IsValid() {
				aliasWalk(it.Value(), cv, path+"{}", false, report, visit)
			}
		}
	case reflect.Slice:
		ro, ok1 := regionOf(o)
		rc, ok2 := regionOf(c)
		if !ok1 || !ok2 {
			return
		}
		visit(path)
		if ro.lo < rc.hi && rc.lo < ro.hi {
			report(path, "the copy's slice shares its backing array with the original")
			return
		}
		for i := 0; i < o.Len() && i < c.Len(); i++ {
			aliasWalk(o.Index(i), c.Index(i), path+"[]", false, report, visit)
		}
	case reflect.Interface:
		if o.IsNil() || c.IsNil() {
			return
		}
		aliasWalk(o.Elem(), c.Elem(), path, false, report, visit)
	}
}

// mutateTop mutates the first-level containers of a value (adds a map entry,
// overwrites a slice element, flips a scalar of a pointed-to struct).
func mutateTop(v reflect.Value, f *filler) int {
	n := 0
	for v.Kind() == reflect.Ptr || v.Kind() == reflect.Interface {
		if v.IsNil() {
			return 0
		}
		v = v.Elem()
	}
	mut := func(fv reflect.Value) {
		if exemptShared(fv.Type()) {
			return
		}
		switch fv.Kind() {
		case reflect.Map:
			if fv.IsNil() {
				return
			}
			k := reflect.New(fv.Type().Key()).Elem()
			f.fill(k, 0, "")
			e := reflect.New(fv.Type().Elem()).Elem()
			f.fill(e, 0, "")
			fv.SetMapIndex(k, e)
			n++
		case reflect.Slice:
			if fv.IsNil() || fv.Len() == 0 {
				return
			}
			e := reflect.New(fv.Type().Elem()).Elem()
			f.fill(e, 0, "")
			if fv.Index(0).CanSet() {
				fv.Index(0).Set(e)
				n++
			}
		case reflect.Ptr:
			if fv.IsNil() || fv.Elem().Kind() != reflect.Struct {
				return
			}
			s := fv.Elem()
			for i := 0; i < s.NumField(); i++ {
				sf := s.Field(i)
				if !sf.CanSet() {
					continue
				}
				if sf.Kind() == reflect.Bool {
					sf.SetBool(!sf.Bool())
					n++
					return
				}
				if sf.Kind() == reflect.String {
					sf.SetString(sf.String() + "_mutated")
					n++
					return
				}
			}
		}
	}
	switch v.Kind() {
	case reflect.Struct:
		for i := 0; i < v.NumField(); i++ {
			if v.Field(i).CanSet() {
				mut(v.Field(i))
			}
		}
	case reflect.Map, reflect.Slice:
		// root value is itself a container; it is not addressable through the
		// interface, mutate through a settable copy of the header
		hv := reflect.New(v.Type()).Elem()
		hv.Set(v)
		mut(hv)
	}
	return n
}

func (p c17) RunUnit(idx int, tier string, seed int64, focus map[string]string, rep *runner.Reporter) {
	roots := c17Roots()
	if idx >= len(roots) {
		return
	}
	rt := roots[idx]
	n := c17Params(tier)
	f := &filler{r: unitRand(seed, "C17", idx), unfilled: map[string]bool{}, fields: map[string]bool{}}
	name := rt.String()
	for i := 0; i < n; i++ {
		rep.Mark(idx, i, -1, -1)
		depth := 1 + i%4
		orig := reflect.New(rt).Elem()
		f.fill(orig, depth, name)
		before := dump.String(orig.Interface(), c17DumpOpts)
		cp, perr := callCopy(orig)
		rep.Eval(1)
		if perr != "" {
			rep.Violation(&runner.Witness{Sig: "COPY-PANIC " + name, What: fmt.Sprintf("%s.Copy() panicked: %s", name, perr), Unit: mustJSON(map[string]interface{}{"type": name, "filling": i, "depth": depth}), Observed: trunc(before, 3000)})
			continue
		}
		if !cp.IsValid() {
			continue
		}
		after := dump.String(cp.Interface(), c17DumpOpts)
		// the copy may be returned through an interface type (Constraint):
		// compare the dynamic values
		if stripIface(after) != stripIface(before) {
			fld := firstDiffField(before, after)
			rep.Violation(&runner.Witness{Sig: "COPY-NOT-EQUAL " + name + " field " + fld, What: fmt.Sprintf("%s.Copy() is not structurally equal to the original (first difference near field %s)", name, fld),
				Unit: mustJSON(map[string]interface{}{"type": name, "filling": i, "depth": depth}), Detail: dump.FirstDiff(stripIface(before), stripIface(after))})
			continue
		}
		cv := cp
		for cv.Kind() == reflect.Interface && !cv.IsNil() {
			cv = cv.Elem()
		}
		aliasWalk(orig, cv, name, true, func(path, what string) {
			rep.Violation(&runner.Witness{Sig: "COPY-SHARES " + normFieldPath(path), What: fmt.Sprintf("%s.Copy(): %s at %s", name, what, path),
				Unit: mustJSON(map[string]interface{}{"type": name, "filling": i, "depth": depth})})
		}, func(path string) {
			rep.NonTrivial(normFieldPath(path))
		})
		// observational independence: mutate the copy, the original must not change; and vice versa
		if mutateTop(cv, f) > 0 {
			if s := dump.String(orig.Interface(), c17DumpOpts); s != before {
				rep.Violation(&runner.Witness{Sig: "COPY-MUTATION-LEAKS " + name + " copy->original", What: fmt.Sprintf("changing containers of %s.Copy() changed the original", name),
					Unit: mustJSON(map[string]interface{}{"type": name, "filling": i, "depth": depth}), Detail: dump.FirstDiff(before, s)})
			}
		}
		cp2, perr2 := callCopy(orig)
		if perr2 == "" && cp2.IsValid() {
			snap := dump.String(cp2.Interface(), c17DumpOpts)
			if mutateTop(orig, f) > 0 {
				if s := dump.String(cp2.Interface(), c17DumpOpts); s != snap {
					rep.Violation(&runner.Witness{Sig: "COPY-MUTATION-LEAKS " + name + " original->copy", What: fmt.Sprintf("changing containers of the original %s changed its earlier copy", name),
						Unit: mustJSON(map[string]interface{}{"type": name, "filling": i, "depth": depth}), Detail: dump.FirstDiff(snap, s)})
				}
			}
		}
		if i == 0 {
			rep.Sample(map[string]interface{}{"type": name, "depth": depth, "original": trunc(before, 400)})
		}
	}
	for fld := range f.fields {
		rep.Distinct("struct_fields_filled", fld)
	}
	for u := range f.unfilled {
		rep.Distinct("unfillable", u)
	}
	rep.Count("pointers_stored_twice_in_a_container", int64(f.aliased))
	rep.Count("empty_non_nil_containers", int64(f.empties))
	rep.Distinct("root_types", name)
}

func callCopy(v reflect.Value) (out reflect.Value, perr string) {
	defer func() {
		if r := recover(); r != nil {
			perr = fmt.Sprint(r)
		}
	}()
	m := v.MethodByName("Copy")
	if !m.IsValid() {
		return reflect.Value{}, ""
	}
	res := m.Call(nil)
	if len(res) != 1 {
		return reflect.Value{}, ""
	}
	return res[0], ""
}

// stripIface removes the interface wrapper a Copy() returning Constraint adds.
func stripIface(s string) string {
	if strings.HasPrefix(s, "iface<") {
		if i := strings.Index(s, ">("); i > 0 && strings.HasSuffix(s, ")") {
			return s[i+2 : len(s)-1]
		}
	}
	return s
}

func firstDiffField(a, b string) string {
	n := len(a)
	if len(b) < n {
		n = len(b)
	}
	i := 0
	for i < n && a[i] == b[i] {
		i++
	}
	pre := a[:i]
	// last "Name:" before the difference
	j := strings.LastIndex(pre, ":")
	for j > 0 {
		k := j - 1
		for k >= 0 && (pre[k] == '_' || pre[k] >= 'a' && pre[k] <= 'z' || pre[k] >= 'A' && pre[k] <= 'Z' || pre[k] >= '0' && pre[k] <= '9') {
			k--
		}
		if k+1 < j && pre[k+1] >= 'A' && pre[k+1] <= 'Z' {
			return pre[k+1 : j]
		}
		j = strings.LastIndex(pre[:j], ":")
	}
	return "?"
}

func normFieldPath(p string) string {
	// collapse recursion so that the key does not depend on depth
	for _, rep := range []string{".Body.Blocks{}", ".DependentBody{}.Blocks{}", ".NestedTargetables[]"} {
		for strings.Count(p, rep) > 1 {
			i := strings.LastIndex(p, rep)
			p = p[:i] + p[i+len(rep):]
		}
	}
	return p
}

func (p c17) Extra(m *runner.Merged) map[string]interface{} {
	var fields, unf []string
	for f := range m.Sets["struct_fields_filled"] {
		fields = append(fields, f)
	}
	for f := range m.Sets["unfillable"] {
		unf = append(unf, f)
	}
	return map[string]interface{}{"exhaustive": true, "exhaustive_over": "struct fields of all types reachable from the root types (fillings themselves are sampled)", "struct_fields_filled": len(fields), "unfillable": unf}
}

var _ = function.Parameter{}

func init() { Register(c17{}) }
