package props

import (
	"fmt"
	"strings"

	"github.com/hashicorp/hcl-lang/lang"
	"github.com/hashicorp/hcl/v2"
	"github.com/hashicorp/hcl/v2/hclsyntax"

	"verifharness/internal/core"
	"verifharness/internal/runner"
)

// c12items is the second part of C12: the hover on an item of a written
// object / map does not depend on the items written before it. For every
// object literal with >= 2 items inside a schema-known value, the items in
// front of item i are removed and the hover on item i (key and value) must
// stay the same apart from the position shift.
type c12items struct{}

func (c12items) ID() string { return "C12-items" }
func (c12items) Meta() Meta { return Meta{} }
func (c12items) NumUnits(tier string, seed int64) int {
	q, t := 40, 300
	return len(diffSources(tier, seed, q, t))
}

func (p c12items) RunUnit(idx int, tier string, seed int64, focus map[string]string, rep *runner.Reporter) {
	srcs := diffSources(tier, seed, 40, 300)
	if idx >= len(srcs) {
		return
	}
	rc := srcs[idx].Recipe
	rnd := unitRand(seed, "C12i", idx)
	base, err := rc.Make()
	if err != nil {
		return
	}
	for _, st := range diffStates(base, rnd, 0) {
		if core.IsJSON(st.File) {
			continue
		}
		_, env0, _ := buildState(rc, st)
		if env0 == nil {
			continue
		}
		pc := env0.PathCtx[st.Path]
		body, ok := pc.Files[st.File].Body.(*hclsyntax.Body)
		if !ok {
			continue
		}
		src := env0.WS.Paths[st.Path].Files[st.File]
		var objs []*hclsyntax.ObjectConsExpr
		hclsyntax.VisitAll(body, func(n hclsyntax.Node) hcl.Diagnostics {
			if oc, ok := n.(*hclsyntax.ObjectConsExpr); ok && len(oc.Items) >= 2 {
				objs = append(objs, oc)
			}
			return nil
		})
		tab0 := env0.Tables[st.Path][st.File]
		for _, oc := range objs {
			first := oc.Items[0].KeyExpr.Range().Start.Byte
			for i := 1; i < len(oc.Items); i++ {
				it := oc.Items[i]
				cut := it.KeyExpr.Range().Start.Byte
				if cut <= first || cut > len(src) {
					continue
				}
				delta := cut - first
				text1 := src[:first] + src[cut:]
				ws1, _ := rc.Make()
				ws1.Paths[st.Path].Files[st.File] = text1
				if _, diags := hclsyntax.ParseConfig([]byte(text1), st.File, hcl.InitialPos); diags.HasErrors() {
					continue
				}
				env1 := ws1.Build(true)
				tab1 := env1.Tables[st.Path][st.File]
				// cursors: inside the key, at the start of the value, inside the value
				vr := it.ValueExpr.Range()
				kr := it.KeyExpr.Range()
				for _, b := range []int{kr.Start.Byte, (kr.Start.Byte + kr.End.Byte) / 2, vr.Start.Byte, (vr.Start.Byte + vr.End.Byte) / 2} {
					p0, ok0 := tab0.At(b)
					p1, ok1 := tab1.At(b - delta)
					if !ok0 || !ok1 {
						continue
					}
					rep.Mark(idx, b, i, -1)
					r0 := env0.Run(core.Query{Kind: core.QHover, Path: st.Path, File: st.File, Pos: p0})
					r1 := env1.Run(core.Query{Kind: core.QHover, Path: st.Path, File: st.File, Pos: p1})
					rep.Eval(2)
					if r0.Panic != nil || r1.Panic != nil {
						continue
					}
					h0, _ := r0.Value.(*lang.HoverData)
					h1, _ := r1.Value.(*lang.HoverData)
					c0, c1 := "<none>", "<none>"
					if h0 != nil {
						c0 = h0.Content.Value
					}
					if h1 != nil {
						c1 = h1.Content.Value
					}
					// object-level hovers list all items: only hovers that describe the item
					// itself (range inside the item) are comparable
					itemLevel := h0 != nil && h0.Range.Start.Byte >= kr.Start.Byte && h0.Range.End.Byte <= vr.End.Byte
					if c0 != c1 && (itemLevel || h0 == nil || (h1 != nil && h1.Range.Start.Byte >= kr.Start.Byte-delta && h1.Range.End.Byte <= vr.End.Byte-delta)) {
						where := "value"
						if b < kr.End.Byte {
							where = "key"
						}
						keyKind := strings.TrimPrefix(fmt.Sprintf("%T", it.KeyExpr.(*hclsyntax.ObjectConsKeyExpr).Wrapped), "*hclsyntax.")
						rep.Violation(&runner.Witness{Sig: fmt.Sprintf("HOVER-ITEM depends-on-preceding-items on=%s key=%s", where, keyKind),
							What:  fmt.Sprintf("the hover on item #%d of an object literal changes when the items written before it are removed", i),
							Unit:  mustJSON(CaseSpec{Recipe: rc, Path: st.Path, File: st.File, Mut: Mutation{Kind: "none"}, Kind: core.QHover.String(), Byte: b}),
							Files: filesOf(env0.WS), Expected: "with the preceding items removed: " + trunc(c1, 400), Observed: "as written: " + trunc(c0, 400)})
					}
					if h0 != nil {
						rep.NonTrivial(fmt.Sprintf("items|%s|%d|%d", rc, oc.Range().Start.Byte, i))
					}
				}
			}
		}
	}
}
