package props

import (
	"encoding/json"
	"fmt"
	"math/rand"
	"strings"

	"github.com/hashicorp/hcl-lang/lang"
	"github.com/hashicorp/hcl/v2"
	"github.com/hashicorp/hcl/v2/hclsyntax"

	"github.com/hashicorp/hcl-lang/reference"
	"github.com/hashicorp/hcl-lang/schema"
	"github.com/zclconf/go-cty/cty"

	"verifharness/internal/core"
	"verifharness/internal/model"
	"verifharness/internal/runner"
)

// governedObjects collects the object literals (>= 2 items) whose items are
// interpreted by an Object or Map constraint reached through collection
// constraints only.
func governedObjects(e hclsyntax.Expression, c schema.Constraint, depth int, out *[]*hclsyntax.ObjectConsExpr) {
	if depth > 8 || c == nil {
		return
	}
	if ae, ok := c.(schema.AnyExpression); ok && governedThroughAny {
		c = typedAnyAsCollection(ae)
	}
	switch cons := c.(type) {
	case schema.Object:
		oc, ok := e.(*hclsyntax.ObjectConsExpr)
		if !ok {
			return
		}
		if len(oc.Items) >= 2 {
			*out = append(*out, oc)
		}
		for _, it := range oc.Items {
			key, _ := it.KeyExpr.Value(nil)
			if key.IsNull() || !key.IsWhollyKnown() || key.Type() != cty.String {
				continue
			}
			if as, ok := cons.Attributes[key.AsString()]; ok {
				governedObjects(it.ValueExpr, as.Constraint, depth+1, out)
			}
		}
	case schema.Map:
		oc, ok := e.(*hclsyntax.ObjectConsExpr)
		if !ok {
			return
		}
		if len(oc.Items) >= 2 {
			*out = append(*out, oc)
		}
		for _, it := range oc.Items {
			governedObjects(it.ValueExpr, cons.Elem, depth+1, out)
		}
	case schema.List:
		if tc, ok := e.(*hclsyntax.TupleConsExpr); ok {
			for _, el := range tc.Exprs {
				governedObjects(el, cons.Elem, depth+1, out)
			}
		}
	case schema.Set:
		if tc, ok := e.(*hclsyntax.TupleConsExpr); ok {
			for _, el := range tc.Exprs {
				governedObjects(el, cons.Elem, depth+1, out)
			}
		}
	case schema.Tuple:
		if tc, ok := e.(*hclsyntax.TupleConsExpr); ok {
			for i, el := range tc.Exprs {
				if i < len(cons.Elems) {
					governedObjects(el, cons.Elems[i], depth+1, out)
				}
			}
		}
	}
}

// governedThroughAny makes governedObjects follow an any-expression of a concrete
// object / map / list / set / tuple type as the collection constraint that interprets a
// written literal of that type (set by the token variant only; workers run one property).
var governedThroughAny bool

func typedAnyAsCollection(ae schema.AnyExpression) schema.Constraint {
	t := ae.OfType
	switch {
	case t == cty.NilType || t == cty.DynamicPseudoType:
		return ae
	case t.IsObjectType():
		attrs := schema.ObjectAttributes{}
		for n, at := range t.AttributeTypes() {
			attrs[n] = &schema.AttributeSchema{Constraint: schema.AnyExpression{OfType: at}, IsOptional: true}
		}
		return schema.Object{Attributes: attrs}
	case t.IsMapType():
		return schema.Map{Elem: schema.AnyExpression{OfType: t.ElementType()}}
	case t.IsListType():
		return schema.List{Elem: schema.AnyExpression{OfType: t.ElementType()}}
	case t.IsSetType():
		return schema.Set{Elem: schema.AnyExpression{OfType: t.ElementType()}}
	}
	return ae
}

// c12items is the second part of C12: the hover on an item of a written
// object / map does not depend on the items written before it. For every
// object literal with >= 2 items inside a schema-known value, the items in
// front of item i are removed and the hover on item i (key and value) must
// stay the same apart from the position shift.
type c12items struct{ tokens bool }

func (p c12items) ID() string {
	if p.tokens {
		return "C13-items"
	}
	return "C12-items"
}
func (c12items) Meta() Meta { return Meta{} }
func (c12items) NumUnits(tier string, seed int64) int {
	q, t := 40, 300
	return len(diffSources(tier, seed, q, t))
}

func (p c12items) RunUnit(idx int, tier string, seed int64, focus map[string]string, rep *runner.Reporter) {
	srcs := diffSources(tier, seed, 40, 300)
	if idx >= len(srcs) {
		return
	}
	p.runRecipe(idx, srcs[idx].Recipe, unitRand(seed, "C12i", idx), rep)
}

// Replay re-runs the part on the source of a witness.
func (p c12items) Replay(w *runner.Witness, rep *runner.Reporter) error {
	var u CaseSpec
	if err := json.Unmarshal(w.Unit, &u); err != nil {
		return err
	}
	p.runRecipe(0, u.Recipe, unitRand(w.Seed, "C12i", 0), rep)
	return nil
}

func (p c12items) runRecipe(idx int, rc Recipe, rnd *rand.Rand, rep *runner.Reporter) {
	governedThroughAny = p.tokens
	base, err := rc.Make()
	if err != nil {
		return
	}
	for _, st := range diffStates(base, rnd, 0) {
		if core.IsJSON(st.File) {
			continue
		}
		_, env0, _ := buildState(rc, st)
		if env0 == nil {
			continue
		}
		pc := env0.PathCtx[st.Path]
		body, ok := pc.Files[st.File].Body.(*hclsyntax.Body)
		if !ok {
			continue
		}
		src := env0.WS.Paths[st.Path].Files[st.File]
		// only literals governed by an Object / Map constraint through a chain of
		// collection constraints: below a OneOf or an any-expression the alternative
		// that interprets an item may legitimately depend on the other items
		var objs []*hclsyntax.ObjectConsExpr
		var sites []valueSite
		valueSites(body, model.EffRoot(pc.Schema), &sites)
		for _, vs := range sites {
			governedObjects(vs.attr.Expr, vs.schema.Constraint, 0, &objs)
		}
		tab0 := env0.Tables[st.Path][st.File]
		for _, oc := range objs {
			first := oc.Items[0].KeyExpr.Range().Start.Byte
			for i := 1; i < len(oc.Items); i++ {
				it := oc.Items[i]
				cut := it.KeyExpr.Range().Start.Byte
				if cut <= first || cut > len(src) {
					continue
				}
				delta := cut - first
				// items that themselves declare something (a traversal under a
				// Reference{Address} constraint) are not removed: a later reference may
				// legitimately resolve to that declaration
				declares := false
				var flat []reference.Target
				flattenTargets(env0.PathCtx[st.Path].ReferenceTargets, &flat)
				for _, tg := range flat {
					if tg.RangePtr != nil && tg.RangePtr.Filename == st.File && tg.RangePtr.Start.Byte >= first && tg.RangePtr.End.Byte <= cut {
						if p.tokens {
							// tokens depend on a removed declaration only through a reference
							// written in the item that addresses it (or something around it)
							for _, o := range env0.PathCtx[st.Path].ReferenceOrigins {
								or := o.OriginRange()
								if or.Filename != st.File || or.Start.Byte < cut || or.End.Byte > it.ValueExpr.Range().End.Byte {
									continue
								}
								mo, isM := o.(reference.MatchableOrigin)
								if !isM {
									declares = true
									continue
								}
								oa, ta := mo.Address().String(), tg.Addr.String()
								if len(tg.Addr) == 0 {
									ta = tg.LocalAddr.String()
								}
								if strings.HasPrefix(oa, ta) || strings.HasPrefix(ta, oa) {
									declares = true
								}
							}
							if declares {
								break
							}
							continue
						}
						declares = true
						break
					}
				}
				if declares {
					continue
				}
				text1 := src[:first] + src[cut:]
				ws1, _ := rc.Make()
				ws1.Paths[st.Path].Files[st.File] = text1
				if _, diags := hclsyntax.ParseConfig([]byte(text1), st.File, hcl.InitialPos); diags.HasErrors() {
					continue
				}
				env1 := ws1.Build(true)
				tab1 := env1.Tables[st.Path][st.File]
				if p.tokens {
					p.compareItemTokens(idx, i, rc, st, env0, env1, it, delta, rep)
					continue
				}
				// cursors: inside the key, at the start of the value, inside the value
				vr := it.ValueExpr.Range()
				kr := it.KeyExpr.Range()
				for _, b := range []int{kr.Start.Byte, (kr.Start.Byte + kr.End.Byte) / 2, vr.Start.Byte, (vr.Start.Byte + vr.End.Byte) / 2} {
					p0, ok0 := tab0.At(b)
					p1, ok1 := tab1.At(b - delta)
					if !ok0 || !ok1 {
						continue
					}
					rep.Mark(idx, b, i, -1)
					r0 := env0.Run(core.Query{Kind: core.QHover, Path: st.Path, File: st.File, Pos: p0})
					r1 := env1.Run(core.Query{Kind: core.QHover, Path: st.Path, File: st.File, Pos: p1})
					rep.Eval(2)
					if r0.Panic != nil || r1.Panic != nil {
						continue
					}
					h0, _ := r0.Value.(*lang.HoverData)
					h1, _ := r1.Value.(*lang.HoverData)
					c0, c1 := "<none>", "<none>"
					if h0 != nil {
						c0 = h0.Content.Value
					}
					if h1 != nil {
						c1 = h1.Content.Value
					}
					// object-level hovers list all items: only hovers that describe the item
					// itself (range inside the item) are comparable
					itemLevel := h0 != nil && h0.Range.Start.Byte >= kr.Start.Byte && h0.Range.End.Byte <= vr.End.Byte
					if c0 != c1 && (itemLevel || h0 == nil || (h1 != nil && h1.Range.Start.Byte >= kr.Start.Byte-delta && h1.Range.End.Byte <= vr.End.Byte-delta)) {
						where := "value"
						if b < kr.End.Byte {
							where = "key"
						}
						keyKind := strings.TrimPrefix(fmt.Sprintf("%T", it.KeyExpr.(*hclsyntax.ObjectConsKeyExpr).Wrapped), "*hclsyntax.")
						rep.Violation(&runner.Witness{Sig: fmt.Sprintf("HOVER-ITEM depends-on-preceding-items on=%s key=%s", where, keyKind),
							What:  fmt.Sprintf("the hover on item #%d of an object literal changes when the items written before it are removed", i),
							Unit:  mustJSON(CaseSpec{Recipe: rc, Path: st.Path, File: st.File, Mut: Mutation{Kind: "none"}, Kind: core.QHover.String(), Byte: b}),
							Files: filesOf(env0.WS), Expected: "with the preceding items removed: " + trunc(c1, 400), Observed: "as written: " + trunc(c0, 400)})
					}
					if h0 != nil {
						rep.NonTrivial(fmt.Sprintf("items|%s|%d|%d", rc, oc.Range().Start.Byte, i))
					}
				}
			}
		}
	}
}

// compareItemTokens: the semantic tokens inside item i of an object literal must not
// change when the items written before it are removed (apart from the shift).
func (p c12items) compareItemTokens(unit, i int, rc Recipe, st State, env0, env1 *core.Env, it hclsyntax.ObjectConsItem, delta int, rep *runner.Reporter) {
	lo, hi := it.KeyExpr.Range().Start.Byte, it.ValueExpr.Range().End.Byte
	rep.Mark(unit, lo, i, -3)
	q := core.Query{Kind: core.QSemTokens, Path: st.Path, File: st.File}
	r0, r1 := env0.Run(q), env1.Run(q)
	rep.Eval(2)
	if r0.Panic != nil || r1.Panic != nil || r0.Err != nil || r1.Err != nil {
		return
	}
	t0, _ := r0.Value.([]lang.SemanticToken)
	t1, _ := r1.Value.([]lang.SemanticToken)
	inside := func(ts []lang.SemanticToken, shift int) string {
		var out []string
		for _, t := range ts {
			if t.Range.Start.Byte >= lo-shift && t.Range.End.Byte <= hi-shift {
				out = append(out, fmt.Sprintf("%d-%d:%s%v", t.Range.Start.Byte+shift-lo, t.Range.End.Byte+shift-lo, t.Type, t.Modifiers))
			}
		}
		return strings.Join(out, " ")
	}
	a, b := inside(t0, 0), inside(t1, delta)
	if a != "" {
		rep.NonTrivial(fmt.Sprintf("item-tokens|%s|%d|%d", rc, lo, i))
	}
	rep.Count("item_token_comparisons", 1)
	if a != b {
		keyKind := strings.TrimPrefix(fmt.Sprintf("%T", it.KeyExpr.(*hclsyntax.ObjectConsKeyExpr).Wrapped), "*hclsyntax.")
		rep.Violation(&runner.Witness{Sig: "TOKEN-ITEM depends-on-preceding-items key=" + keyKind,
			What:  fmt.Sprintf("the semantic tokens inside item #%d of an object literal change when the items written before it are removed", i),
			Unit:  mustJSON(CaseSpec{Recipe: rc, Path: st.Path, File: st.File, Mut: Mutation{Kind: "none"}, Kind: core.QSemTokens.String(), Byte: lo}),
			Files: filesOf(env0.WS), Expected: "with the preceding items removed: " + trunc(b, 400), Observed: "as written: " + trunc(a, 400)})
	}
}
