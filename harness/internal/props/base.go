// Package props holds one checker per property. Every checker is a
// deterministic list of units (a pure function of tier and seed); a unit
// executes the real library and runs its oracles online.
package props

import (
	"encoding/json"
	"fmt"
	"math/rand"
	"sort"
	"strconv"

	"github.com/hashicorp/hcl/v2"
	"github.com/hashicorp/hcl/v2/hclsyntax"

	"verifharness/internal/core"
	"verifharness/internal/fixture"
	"verifharness/internal/gen"
	"verifharness/internal/runner"
)

// Meta describes a property checker for the driver.
type Meta struct {
	Level            string
	Rule             string
	Assumptions      []string
	Floor            map[string]int // tier -> floor of distinct non-trivial cases
	CaseBudget       float64
	FatalIsViolation bool
	// SingleProcess: the property runs its own goroutines in one worker (C05).
	MaxWorkers int
	Race       bool // needs the -race build of the binary
}

// Prop is a property checker.
type Prop interface {
	ID() string
	Meta() Meta
	NumUnits(tier string, seed int64) int
	// RunUnit executes unit idx. focus (may be nil) narrows it for replay.
	RunUnit(idx int, tier string, seed int64, focus map[string]string, rep *runner.Reporter)
}

var registry = map[string]Prop{}

func Register(p Prop) { registry[p.ID()] = p }

func Get(id string) Prop { return registry[id] }

func IDs() []string {
	var out []string
	for k := range registry {
		out = append(out, k)
	}
	sort.Strings(out)
	return out
}

// Recipe rebuilds a workspace from scratch (fresh schema objects, fresh maps).
type Recipe struct {
	Kind string `json:"kind"` // "fixture" | "gen"
	Name string `json:"name,omitempty"`
	Seed int64  `json:"seed,omitempty"`
	Opt  string `json:"opt,omitempty"`
}

func (r Recipe) String() string {
	if r.Kind == "fixture" {
		return "fixture:" + r.Name
	}
	return fmt.Sprintf("gen:%d:%s", r.Seed, r.Opt)
}

func (r Recipe) Make() (*core.Workspace, error) {
	switch r.Kind {
	case "fixture":
		return fixture.Make(r.Name)
	case "gen":
		return gen.Make(r.Seed, r.Opt)
	}
	return nil, fmt.Errorf("unknown recipe kind %q", r.Kind)
}

// Mutation is one step of a typing history (W4) applied to one file.
type Mutation struct {
	Kind string `json:"kind"` // none | prefix | tokdel | tokdup | tokrep | insert
	A    int    `json:"a,omitempty"`
	Text string `json:"text,omitempty"`
	// a second insertion (offset in the text after the first), kind insert only
	B     int    `json:"b,omitempty"`
	Text2 string `json:"text2,omitempty"`
}

func (m Mutation) String() string {
	if m.Text2 != "" {
		return fmt.Sprintf("%s(%d,%q)+insert(%d,%q)", m.Kind, m.A, m.Text, m.B, m.Text2)
	}
	return fmt.Sprintf("%s(%d,%q)", m.Kind, m.A, m.Text)
}

// Apply returns the mutated text and the byte offset of the edit point.
func (m Mutation) Apply(src string) (string, int) {
	switch m.Kind {
	case "none", "":
		return src, -1
	case "text":
		return m.Text, len(m.Text)
	case "prefix":
		if m.A > len(src) {
			return src, len(src)
		}
		return src[:m.A], m.A
	case "insert":
		a := m.A
		if a > len(src) {
			a = len(src)
		}
		out, edit := src[:a]+m.Text+src[a:], a+len(m.Text)
		if m.Text2 != "" {
			b := m.B
			if b > len(out) {
				b = len(out)
			}
			out = out[:b] + m.Text2 + out[b:]
			if b <= edit {
				edit += len(m.Text2)
			}
		}
		return out, edit
	case "tokdel", "tokdup", "tokrep":
		toks, _ := hclsyntax.LexConfig([]byte(src), "x", hcl.InitialPos)
		if m.A >= len(toks) {
			return src, -1
		}
		t := toks[m.A]
		s, e := t.Range.Start.Byte, t.Range.End.Byte
		switch m.Kind {
		case "tokdel":
			return src[:s] + src[e:], s
		case "tokdup":
			return src[:e] + src[s:e] + src[e:], e + (e - s)
		default:
			return src[:s] + m.Text + src[e:], s + len(m.Text)
		}
	}
	return src, -1
}

// NumTokens counts the lexer tokens of a text.
func NumTokens(src string) int {
	toks, _ := hclsyntax.LexConfig([]byte(src), "x", hcl.InitialPos)
	return len(toks)
}

// Replacement texts for single-token edits.
var TokReplacements = []string{".", "[", "]", "(", ")", "{", "}", "\"", "${", "=", ",", ":", "::", "\n", "x", "7", "", " "}

// focusInt reads an int from a focus map.
func focusInt(f map[string]string, key string) (int, bool) {
	if f == nil {
		return 0, false
	}
	s, ok := f[key]
	if !ok {
		return 0, false
	}
	n, err := strconv.Atoi(s)
	return n, err == nil
}

func focusIs(f map[string]string, key, val string) bool {
	if f == nil {
		return true
	}
	s, ok := f[key]
	return !ok || s == val
}

func mustJSON(v interface{}) json.RawMessage {
	b, _ := json.Marshal(v)
	return b
}

// filesOf flattens the files of an env for a witness.
func filesOf(ws *core.Workspace) map[string]string {
	out := map[string]string{}
	for p, spec := range ws.Paths {
		for f, src := range spec.Files {
			out[p+"/"+f] = src
		}
	}
	return out
}

// unitRand derives the PRNG of a unit from (seed, property, unit index).
func unitRand(seed int64, prop string, idx int) *rand.Rand {
	h := int64(1469598103934665603)
	for _, c := range prop {
		h = (h ^ int64(c)) * 1099511628211
	}
	return rand.New(rand.NewSource(seed*1000003 + h + int64(idx)*7919))
}

func trunc(s string, n int) string {
	if len(s) > n {
		return s[:n] + "…"
	}
	return s
}

// Replayer re-executes the single case recorded in a witness.
type Replayer interface {
	Replay(w *runner.Witness, rep *runner.Reporter) error
}

// WithExtra lets a property add coverage keys computed from merged stats.
type WithExtra interface {
	Extra(m *runner.Merged) map[string]interface{}
}

// Composite concatenates the units of several parts into one property.
type Composite struct {
	id    string
	meta  Meta
	Parts []Prop
	Names []string
}

func (c *Composite) ID() string { return c.id }
func (c *Composite) Meta() Meta { return c.meta }
func (c *Composite) NumUnits(tier string, seed int64) int {
	n := 0
	for _, p := range c.Parts {
		n += p.NumUnits(tier, seed)
	}
	return n
}
func (c *Composite) RunUnit(idx int, tier string, seed int64, focus map[string]string, rep *runner.Reporter) {
	for i, p := range c.Parts {
		n := p.NumUnits(tier, seed)
		if idx < n {
			rep.SetPart(c.Names[i])
			rep.Distinct("parts", c.Names[i])
			p.RunUnit(idx, tier, seed, focus, rep)
			rep.SetPart("")
			return
		}
		idx -= n
	}
}
func (c *Composite) Replay(w *runner.Witness, rep *runner.Reporter) error {
	for i, p := range c.Parts {
		if w.Focus != nil && w.Focus["part"] != "" && w.Focus["part"] != c.Names[i] {
			continue
		}
		if rp, ok := p.(Replayer); ok {
			rep.SetPart(c.Names[i])
			err := rp.Replay(w, rep)
			rep.SetPart("")
			return err
		}
	}
	return fmt.Errorf("no part can replay this witness")
}
