package props

import (
	"context"
	"fmt"
	"sort"
	"strings"

	"github.com/hashicorp/hcl-lang/decoder"
	"github.com/hashicorp/hcl-lang/reference"
	"github.com/hashicorp/hcl-lang/schema"
	"github.com/hashicorp/hcl/v2"
	"github.com/hashicorp/hcl/v2/hclsyntax"
	"github.com/zclconf/go-cty/cty"

	"verifharness/internal/core"
	"verifharness/internal/dump"
	"verifharness/internal/gen"
	"verifharness/internal/model"
	"verifharness/internal/runner"
)

// C19: JSON and native syntax of the same configuration yield the same
// reference graph.

type c19 struct{}

func (c19) ID() string { return "C19" }
func (c19) Meta() Meta {
	return Meta{
		Level:       "exploration",
		Rule:        "differential monitor: the generator's 'simple' mode draws schemas (blocks of every type with labels and addresses, dependent bodies, any-attribute bodies, AnyExpression / LiteralType / Reference / List / Map constraints) and one abstract configuration (literals of all types, lists, maps/objects, references, \"pre-${ref}-post\" templates) that is rendered BOTH in native syntax and in HCL's JSON syntax (references as \"${...}\" strings); both go through the real collectors; compared are the absolute reference targets (address, type, scope, nesting - as a sorted flat list), the reference origin addresses (multiset), and the symbol outline from Decoder.Symbols (names with nesting, unordered). Ranges and block-local targets (self/count/each) are excluded as the property says. distinct non-trivial = schema/configuration pairs with >= 1 target and >= 1 origin, keyed by source.",
		Assumptions: []string{"origin constraints are not compared (documented loss of precision inside JSON strings)", "the order of symbols/targets is not compared: JSON groups blocks by type"},
		Floor:       map[string]int{"quick": 20, "thorough": 100},
		CaseBudget:  60,
	}
}

func c19Params(tier string) int {
	if tier == "thorough" {
		return 20000
	}
	return 1500
}

func (p c19) NumUnits(tier string, seed int64) int { return c19Params(tier) }

func targetLines(ts reference.Targets, depth int, out *[]string) {
	for _, t := range ts {
		if len(t.LocalAddr) > 0 && len(t.Addr) == 0 {
			continue // block-local
		}
		ty := "typeless"
		if t.Type != cty.NilType {
			ty = dump.S(t.Type)
		}
		*out = append(*out, fmt.Sprintf("%s%s scope=%s type=%s", strings.Repeat("  ", 0), t.Addr.String(), t.ScopeId, ty))
		targetLines(t.NestedTargets, depth+1, out)
	}
}

func symbolLines(ss []decoder.Symbol, prefix string, out *[]string) {
	for _, s := range ss {
		name := prefix + "/" + s.Name()
		if symKind(s) == "expr" {
			continue // the block/attribute outline is compared; JSON has no expression symbols
		}
		*out = append(*out, symKind(s)+" "+name)
		symbolLines(s.NestedSymbols(), name, out)
	}
}

// knownOutline lists the attributes and blocks of a native body that the
// effective schema knows - which is what the JSON rendering can be decoded
// into (dynamic blocks per the model's account of the DynamicBlocks extension).
func knownOutline(body *hclsyntax.Body, e *model.Eff, prefix string, out *[]string) {
	knownOutlineU(body, e, false, prefix, out)
}

// knownOutlineU: unk = some enclosing block selects its dependent body by keys that resolve to none
// (or only to the first level), or has no static body: validation reports nothing as unexpected there.
func knownOutlineU(body *hclsyntax.Body, e *model.Eff, unk bool, prefix string, out *[]string) {
	if !e.Known {
		return
	}
	if onDynamicBlock != nil {
		for _, b := range body.Blocks {
			if b.Type == "dynamic" && e.Blocks["dynamic"] == nil {
				onDynamicBlock(b, e.DynTypes != nil, unk)
			}
		}
	}
	for name := range body.Attributes {
		if as, _ := e.AttrSchema(name); as != nil {
			*out = append(*out, "attribute "+prefix+"/"+name)
		}
	}
	for _, b := range body.Blocks {
		bs := e.Blocks[b.Type]
		if bs == nil && b.Type == "dynamic" && e.DynTypes != nil {
			// dynamic "<type>" { for_each, iterator, labels, content { <body of the type> } }
			name := "dynamic"
			for _, l := range b.Labels {
				name += fmt.Sprintf(" %q", l)
			}
			*out = append(*out, "block "+prefix+"/"+name)
			for an := range b.Body.Attributes {
				if an == "for_each" || an == "iterator" || an == "labels" {
					*out = append(*out, "attribute "+prefix+"/"+name+"/"+an)
				}
			}
			if len(b.Labels) < 1 || !e.DynTypes[b.Labels[0]] || e.Blocks[b.Labels[0]] == nil {
				continue // content is only known for the types registered with the dynamic block
			}
			tbs := e.Blocks[b.Labels[0]]
			for _, cb := range b.Body.Blocks {
				if cb.Type != "content" {
					continue
				}
				*out = append(*out, "block "+prefix+"/"+name+"/content")
				if tbs.Body == nil {
					continue
				}
				// (key attributes of the type's static body find no dependent body in the
				// content block's schema: the lookup fails and validation treats the
				// content as of unknown schema)
				cunk := unk
				for _, as := range tbs.Body.Attributes {
					if as.IsDepKey {
						cunk = true
					}
				}
				knownOutlineU(cb.Body, model.EffContent(tbs, b.Labels[0], e), cunk, prefix+"/"+name+"/content", out)
			}
			continue
		}
		if bs == nil {
			continue
		}
		name := b.Type
		for _, l := range b.Labels {
			name += fmt.Sprintf(" %q", l)
		}
		*out = append(*out, "block "+prefix+"/"+name)
		ne := model.Effective(b, bs, e)
		if bs.Body == nil && ne.Dep == nil {
			continue
		}
		knownOutlineU(b.Body, ne, unk || ne.Lookup == model.Unresolved || ne.Lookup == model.Partial || bs.Body == nil, prefix+"/"+name, out)
	}
}

// onDynamicBlock, when set, is told for every written dynamic block of a walked
// body whether the merged schema of that body knows dynamic blocks (single
// threaded use inside one worker).
var onDynamicBlock func(b *hclsyntax.Block, known, unknownZone bool)

// dynamicBlocksKnown walks a native body with the schema-known outline model
// and reports, per written dynamic block (keyed by its header range), whether
// the schema of the body it is written in declares dynamic blocks. Dynamic
// blocks in places the model does not walk (unknown bodies) are absent.
func dynamicBlocksKnown(body *hclsyntax.Body, root *schema.BodySchema) (known map[hcl.Range]bool, unknownZone map[hcl.Range]bool) {
	known, unknownZone = map[hcl.Range]bool{}, map[hcl.Range]bool{}
	onDynamicBlock = func(b *hclsyntax.Block, k, u bool) {
		known[b.DefRange()] = k
		if u {
			unknownZone[b.DefRange()] = true
		}
	}
	defer func() { onDynamicBlock = nil }()
	var sink []string
	knownOutline(body, model.EffRoot(root), "", &sink)
	return known, unknownZone
}

func (p c19) RunUnit(idx int, tier string, seed int64, focus map[string]string, rep *runner.Reporter) {
	gseed := seed*100000 + int64(idx)
	opt := []string{"simple", "simple,refs", "simple,deps", "simple,refs,unicode"}[idx%4]
	nat := gen.Build(gseed, opt)
	js, ok := gen.BuildJSON(gseed, opt)
	if !ok {
		rep.Count("not_expressible_in_json", 1)
		return
	}
	envN := nat.WS.Build(true)
	envJ := js.WS.Build(true)
	rep.Eval(2)
	unitJSON := mustJSON(map[string]interface{}{"gen_seed": gseed, "opt": opt})
	files := map[string]string{"/gen/main.tf": nat.Src, "/gen/main.tf.json": js.Src}
	if len(envN.BuildPanics)+len(envJ.BuildPanics) > 0 {
		rep.Count("collector_panics", 1)
		return
	}
	cmp := func(view string, a, b []string) {
		sort.Strings(a)
		sort.Strings(b)
		sa, sb := strings.Join(a, "\n"), strings.Join(b, "\n")
		if sa == sb {
			return
		}
		// classify the first difference
		am, bm := map[string]int{}, map[string]int{}
		for _, x := range a {
			am[x]++
		}
		for _, x := range b {
			bm[x]++
		}
		var onlyN, onlyJ []string
		for x, n := range am {
			if bm[x] < n {
				onlyN = append(onlyN, x)
			}
		}
		for x, n := range bm {
			if am[x] < n {
				onlyJ = append(onlyJ, x)
			}
		}
		sort.Strings(onlyN)
		sort.Strings(onlyJ)
		class := "differ"
		switch {
		case len(onlyJ) == 0:
			class = "missing-in-json"
		case len(onlyN) == 0:
			class = "extra-in-json"
		}
		rep.Violation(&runner.Witness{Sig: fmt.Sprintf("JSON-VS-NATIVE %s %s", view, class), What: fmt.Sprintf("the %s of the JSON rendering differ from the native rendering of the same configuration", view),
			Unit: unitJSON, Files: files, Expected: "only in native:\n" + trunc(strings.Join(onlyN, "\n"), 2500), Observed: "only in JSON:\n" + trunc(strings.Join(onlyJ, "\n"), 2500)})
	}
	var tn, tj []string
	targetLines(envN.PathCtx[gen.GenPath].ReferenceTargets, 0, &tn)
	targetLines(envJ.PathCtx[gen.GenPath].ReferenceTargets, 0, &tj)
	cmp("targets", tn, tj)
	var on, oj []string
	for _, o := range envN.PathCtx[gen.GenPath].ReferenceOrigins {
		if mo, ok := o.(reference.MatchableOrigin); ok && !isLocalName(mo.Address()) {
			on = append(on, mo.Address().String())
		}
	}
	for _, o := range envJ.PathCtx[gen.GenPath].ReferenceOrigins {
		if mo, ok := o.(reference.MatchableOrigin); ok && !isLocalName(mo.Address()) {
			oj = append(oj, mo.Address().String())
		}
	}
	// A JSON string cannot say whether it is a quoted literal or a bare reference:
	// where a constraint admits both, a literal like "bar" reads as the reference
	// bar in JSON only. Origins whose address is the text of a string literal of the
	// native file are therefore not counted on the JSON side.
	if nb, ok := envN.PathCtx[gen.GenPath].Files["main.tf"].Body.(*hclsyntax.Body); ok {
		lits := map[string]bool{}
		hclsyntax.VisitAll(nb, func(n hclsyntax.Node) hcl.Diagnostics {
			if te, ok := n.(*hclsyntax.TemplateExpr); ok && len(te.Parts) == 1 {
				if lv, ok := te.Parts[0].(*hclsyntax.LiteralValueExpr); ok && lv.Val.Type() == cty.String && !lv.Val.IsNull() {
					lits[lv.Val.AsString()] = true
				}
			}
			return nil
		})
		inNative := map[string]int{}
		for _, x := range on {
			inNative[x]++
		}
		kept := oj[:0]
		for _, x := range oj {
			if lits[x] && inNative[x] == 0 {
				rep.Count("ambiguous_json_strings_not_counted", 1)
				continue
			}
			kept = append(kept, x)
		}
		oj = kept
	}
	cmp("origins", on, oj)
	// outline: JSON can only show what the schema knows, so the native outline
	// is restricted to the items known to the model's effective schema
	sj, _ := envJ.Dec.Symbols(context.Background(), "")
	var ln, lj []string
	symbolLines(sj, "", &lj)
	if nb, ok := envN.PathCtx[gen.GenPath].Files["main.tf"].Body.(*hclsyntax.Body); ok {
		knownOutline(nb, model.EffRoot(nat.Root), "", &ln)
	}
	cmp("symbols", ln, lj)
	if len(tn) > 0 && len(on) > 0 {
		rep.NonTrivial(fmt.Sprintf("%d|%s", gseed, opt))
		if rep.NumSamples() < 3 {
			rep.Sample(map[string]interface{}{"gen_seed": gseed, "opt": opt, "targets": len(tn), "origins": len(on), "symbols": len(ln), "native_head": trunc(nat.Src, 300), "json_head": trunc(js.Src, 300)})
		}
	}
	_ = core.QSemTokens
}

func init() { Register(c19{}) }
