package props

import (
	"encoding/json"
	"fmt"
	"math/rand"
	"strings"

	"github.com/hashicorp/hcl-lang/lang"
	"github.com/hashicorp/hcl/v2"
	"github.com/hashicorp/hcl/v2/hclsyntax"

	"verifharness/internal/core"
	"verifharness/internal/runner"
)

// c12reftok is the third part of C12: a reference that the library itself
// marks with reference-step tokens is a sub-expression the schema can interpret
// (it was resolved against the collected declarations under the constraint in
// force there) - a hover on it must describe it. Consistency monitor between
// SemanticTokensInFile and HoverAtPos on valid base files.
type c12reftok struct{}

func (c12reftok) ID() string { return "C12-reference-tokens" }
func (c12reftok) Meta() Meta { return Meta{} }
func (c12reftok) NumUnits(tier string, seed int64) int {
	return len(diffSources(tier, seed, 60, 600))
}

func (p c12reftok) RunUnit(idx int, tier string, seed int64, focus map[string]string, rep *runner.Reporter) {
	srcs := diffSources(tier, seed, 60, 600)
	if idx >= len(srcs) {
		return
	}
	p.runRecipe(idx, srcs[idx].Recipe, unitRand(seed, "C12r", idx), rep)
}

func (p c12reftok) Replay(w *runner.Witness, rep *runner.Reporter) error {
	var u CaseSpec
	if err := json.Unmarshal(w.Unit, &u); err != nil {
		return err
	}
	p.runRecipe(0, u.Recipe, unitRand(w.Seed, "C12r", 0), rep)
	return nil
}

func (p c12reftok) runRecipe(idx int, rc Recipe, rnd *rand.Rand, rep *runner.Reporter) {
	base, err := rc.Make()
	if err != nil {
		return
	}
	for _, st := range diffStates(base, rnd, 0) {
		if core.IsJSON(st.File) {
			continue
		}
		ws, env, _ := buildState(rc, st)
		if env == nil || ws.FailPaths[st.Path] {
			continue
		}
		tab := env.Tables[st.Path][st.File]
		if tab == nil {
			continue
		}
		body, _ := env.PathCtx[st.Path].Files[st.File].Body.(*hclsyntax.Body)
		r := env.Run(core.Query{Kind: core.QSemTokens, Path: st.Path, File: st.File})
		rep.Eval(1)
		toks, _ := r.Value.([]lang.SemanticToken)
		for _, t := range toks {
			if t.Type != lang.TokenReferenceStep {
				continue
			}
			b := t.Range.Start.Byte
			if t.Range.End.Byte-b > 1 {
				b++
			}
			pos, ok := tab.At(b)
			if !ok {
				continue
			}
			rep.Mark(idx, b, -4, -1)
			q := core.Query{Kind: core.QHover, Path: st.Path, File: st.File, Pos: pos}
			hr := env.Run(q)
			rep.Eval(1)
			rep.Count("reference_step_tokens_hovered", 1)
			if hr.Panic != nil {
				continue
			}
			hd, _ := hr.Value.(*lang.HoverData)
			if hd != nil {
				rep.NonTrivial(fmt.Sprintf("reftok|%s|%s", rc, st.File))
				continue
			}
			rep.Violation(&runner.Witness{Sig: "HOVER-REFERENCE missing on a reference that carries reference-step tokens where=" + refTokWhere(exprChainAt(body, b)),
				What:  fmt.Sprintf("the reference step at %s is marked by semantic tokens (the reference was interpreted and resolved under the constraint in force) but a hover there reports nothing (err=%v)", fmtRange(t.Range), hr.Err),
				Unit:  mustJSON(CaseSpec{Recipe: rc, Path: st.Path, File: st.File, Mut: Mutation{Kind: "none"}, Kind: q.Kind.String(), Byte: b}),
				Files: filesOf(ws), Query: q.String()})
		}
	}
}

// exprChainAt names the expression kinds from an attribute's value down to the byte.
func exprChainAt(body *hclsyntax.Body, off int) string {
	if body == nil {
		return "?"
	}
	var chain []string
	hclsyntax.VisitAll(body, func(n hclsyntax.Node) hcl.Diagnostics {
		ex, ok := n.(hclsyntax.Expression)
		if !ok {
			return nil
		}
		if r := ex.Range(); r.Start.Byte <= off && off < r.End.Byte {
			k := exprKind(ex)
			if len(chain) == 0 || chain[len(chain)-1] != k {
				chain = append(chain, k)
			}
		}
		return nil
	})
	if len(chain) > 6 {
		chain = chain[len(chain)-6:]
	}
	return strings.Join(chain, ">")
}

// refTokWhere classifies the place: a collection literal inside a branch of a conditional
// is one class (hover interprets branches without the expected type), anything else is
// named by its chain of expression kinds.
func refTokWhere(chain string) string {
	if i := strings.Index(chain, "Conditional>"); i >= 0 {
		rest := chain[i:]
		if strings.Contains(rest, "TupleCons") || strings.Contains(rest, "ObjectCons") {
			return "collection-literal-in-conditional-branch"
		}
	}
	return chain
}
