package props

import (
	"encoding/json"
	"fmt"

	"github.com/hashicorp/hcl-lang/decoder"
	"github.com/hashicorp/hcl-lang/lang"
	"github.com/hashicorp/hcl-lang/reference"
	"github.com/hashicorp/hcl/v2"
	"github.com/zclconf/go-cty/cty"

	"verifharness/internal/core"
	"verifharness/internal/runner"
)

// C11: go-to-definition and find-references are inverse views of one
// resolution.

type c11 struct{}

func (c11) ID() string { return "C11" }
func (c11) Meta() Meta {
	return Meta{
		Level:       "exploration",
		Rule:        "differential + reference-model monitor on the multi-path fixture workspaces (module inputs as path origins, module outputs as implied origins, module source as direct origin, count/each/self local names in several blocks; tf-twins: two root modules with byte-identical files calling one child module, so that origins of different paths share file name and range) and generated reference-heavy workspaces, base files and seeded broken states: for every collected origin and several cursor bytes inside it, ReferenceTargetsForOriginAtPos is called; (i) every reported declaration must carry the origin's address (absolute, or block-local with the origin inside the declaration's visible-from range) in the collected targets of the reported path, (ii) block-local names (count.*, each.*, self.*) resolve only to local declarations whose visible-from range contains the origin, (iii) path origins resolve in their target path, (iv) for every reported declaration with a definition range, ReferenceOriginsTargetingPos asked at that definition range (its start and a middle byte) must report this origin (path + range), (v) a type-less origin whose address and scope equal a type-less declaration must resolve to it. distinct non-trivial = (origin, declaration) pairs checked for the inverse, keyed by origin kind {local, block-local name, path/implied} and source.",
		Assumptions: []string{"declarations without a definition range and direct origins (no declaration) are only range-checked by C02"},
		Floor:       map[string]int{"quick": 40, "thorough": 200},
		CaseBudget:  60,
	}
}

func c11Params(tier string) (nGenQ, nGenT, broken int) {
	if tier == "thorough" {
		return 400, 5000, 6
	}
	return 400, 5000, 2
}

func (p c11) NumUnits(tier string, seed int64) int {
	q, t, _ := c11Params(tier)
	return len(diffSources(tier, seed, q, t))
}

func (p c11) RunUnit(idx int, tier string, seed int64, focus map[string]string, rep *runner.Reporter) {
	q, t, broken := c11Params(tier)
	srcs := diffSources(tier, seed, q, t)
	if idx >= len(srcs) {
		return
	}
	rc := srcs[idx].Recipe
	rnd := unitRand(seed, "C11", idx)
	base, err := rc.Make()
	if err != nil {
		return
	}
	done := false
	for sti, st := range diffStates(base, rnd, broken) {
		if st.Mut.Kind == "none" {
			if done {
				continue
			}
			done = true
		}
		rep.Mark(idx, sti, -1, -1)
		p.check(idx, sti, rc, st, rep)
	}
}

// flatten lists targets deeply.
func flattenTargets(ts reference.Targets, out *[]reference.Target) {
	for _, t := range ts {
		*out = append(*out, t)
		flattenTargets(t.NestedTargets, out)
	}
}

func isLocalName(a lang.Address) bool {
	if len(a) == 0 {
		return false
	}
	switch a[0].String() {
	case "count", "each", "self":
		return true
	}
	return false
}

func (p c11) check(idx, sti int, rc Recipe, st State, rep *runner.Reporter) {
	ws, env, _ := buildState(rc, st)
	if env == nil {
		return
	}
	flat := map[string][]reference.Target{}
	for _, path := range ws.Order {
		var l []reference.Target
		flattenTargets(env.PathCtx[path].ReferenceTargets, &l)
		flat[path] = l
	}
	for _, path := range ws.Order {
		pc := env.PathCtx[path]
		// several origins may share one range (a local origin and the implied path
		// origin derived from it): a reported declaration must be explained by one of them
		sameRange := map[hcl.Range][]reference.MatchableOrigin{}
		for _, o := range pc.ReferenceOrigins {
			if mo, ok := o.(reference.MatchableOrigin); ok {
				sameRange[o.OriginRange()] = append(sameRange[o.OriginRange()], mo)
			}
		}
		seenRange := map[hcl.Range]bool{}
		for _, o := range pc.ReferenceOrigins {
			or := o.OriginRange()
			if seenRange[or] {
				continue
			}
			seenRange[or] = true
			tab := env.Tables[path][or.Filename]
			if tab == nil {
				continue
			}
			if _, isDirect := o.(reference.DirectOrigin); isDirect {
				continue
			}
			mo, ok := o.(reference.MatchableOrigin)
			if !ok {
				continue
			}
			addr := mo.Address()
			kind := "local"
			targetPath := path
			if po, ok := o.(reference.PathOrigin); ok {
				kind = "path"
				targetPath = po.TargetPath.Path
				_ = targetPath
			}
			if isLocalName(addr) {
				kind = "block-local-name"
			}
			bytes := []int{or.Start.Byte}
			if or.End.Byte-or.Start.Byte > 2 {
				bytes = append(bytes, (or.Start.Byte+or.End.Byte)/2, or.End.Byte-1)
			}
			for _, b := range bytes {
				pos, ok := tab.At(b)
				if !ok {
					continue
				}
				q := core.Query{Kind: core.QGotoDef, Path: path, File: or.Filename, Pos: pos}
				rep.Mark(idx, sti, b, -1)
				r := env.Run(q)
				rep.Eval(1)
				if r.Panic != nil {
					continue
				}
				rts, _ := r.Value.(decoder.ReferenceTargets)
				unitJSON := mustJSON(diffUnit{Recipe: rc, Path: path, File: or.Filename, Mut: st.Mut, Kind: q.Kind.String(), Byte: b})
				viol := func(sig, what string) {
					rep.Violation(&runner.Witness{Sig: sig, What: what, Unit: unitJSON, Files: filesOf(ws), Query: q.String()})
				}
				// a self.* origin names a declaration of the enclosing block: the one whose
				// absolute address is the block's address followed by the steps behind self
				if b == or.Start.Byte && len(addr) > 1 && addr[0].String() == "self" && r.Err == nil {
					for _, blk := range flat[path] {
						if len(blk.LocalAddr) != 1 || blk.LocalAddr[0].String() != "self" || len(blk.Addr) == 0 || blk.TargetableFromRangePtr == nil || !rangeWithin(or, *blk.TargetableFromRangePtr) {
							continue
						}
						wantAbs := append(append(lang.Address{}, blk.Addr...), addr[1:]...)
						for _, d := range flat[path] {
							// (only declarations that belong to a self-referable block carry a local
							// address at all; others of the same absolute address - declared by a
							// Reference constraint with an Address - are not reachable through self)
							// (and only those written in this very block: another block may carry the same address)
							if d.RangePtr == nil || len(d.LocalAddr) == 0 || !rangeWithin(*d.RangePtr, *blk.TargetableFromRangePtr) || len(d.Addr) != len(wantAbs) || !addrEqualSteps(d.Addr, wantAbs) {
								continue
							}
							fits := false
							for _, oc := range mo.OriginConstraints() {
								if (oc.OfScopeId == "" || oc.OfScopeId == d.ScopeId) && (oc.OfType == cty.DynamicPseudoType || (oc.OfType != cty.NilType && d.Type != cty.NilType && oc.OfType.Equals(d.Type))) {
									fits = true
								}
							}
							if !fits {
								continue
							}
							rep.Count("self_origins_with_named_declaration", 1)
							reached := false
							for _, rt := range rts {
								if rt.Range == *d.RangePtr {
									reached = true
								}
							}
							if !reached {
								viol("LOOKUP self-origin-does-not-reach-the-declaration-it-names", fmt.Sprintf("go-to-definition at %s (%s) does not report the declaration %s at %s, which is the enclosing block's address followed by the steps behind self", addr, fmtRange(or), d.Addr, fmtRange(*d.RangePtr)))
							}
						}
					}
				}
				// the lookup is asked at a byte of a collected origin: it must find that origin
				if _, notFound := r.Err.(*reference.NoOriginFound); notFound {
					viol("LOOKUP origin-not-found-at-its-own-position kind="+kind, fmt.Sprintf("go-to-definition at byte %d of the collected origin %s (%s) answers that there is no origin", b, addr, fmtRange(or)))
				}
				for _, rt := range rts {
					if rt.OriginRange != or {
						continue
					}
					// which origin of this range explains the reported declaration?
					okAddr, okLocal, okPath, okAbsOnly := false, false, false, false
					for _, cand := range sameRange[or] {
						cAddr := cand.Address()
						cPath := path
						if po, isPath := cand.(reference.PathOrigin); isPath {
							cPath = po.TargetPath.Path
						}
						if cPath != rt.Path.Path {
							continue
						}
						okPath = true
						for _, t := range flat[rt.Path.Path] {
							if t.RangePtr == nil || *t.RangePtr != rt.Range {
								continue
							}
							if (t.DefRangePtr == nil) != (rt.DefRangePtr == nil) || (t.DefRangePtr != nil && *t.DefRangePtr != *rt.DefRangePtr) {
								continue
							}
							if len(t.Addr) > 0 && addrEqualSteps(t.Addr, cAddr) {
								okAddr = true
								if len(t.LocalAddr) == 0 {
									// a declaration that is absolute only (e.g. the value of an attribute
									// whose Reference constraint declares the written address) answers for
									// that address everywhere, also if it happens to read count.index
									okAbsOnly = true
								}
							}
							// a dynamically typed declaration also answers for unknown nested paths
							if len(t.Addr) > 0 && len(cAddr) > len(t.Addr) && t.Type == cty.DynamicPseudoType && addrEqualSteps(lang.Address(cAddr[:len(t.Addr)]), t.Addr) {
								okAddr = true
							}
							if len(t.LocalAddr) > 0 && t.TargetableFromRangePtr != nil && rangeWithin(or, *t.TargetableFromRangePtr) {
								if addrEqualSteps(t.LocalAddr, cAddr) {
									okLocal = true
								}
								if len(cAddr) > len(t.LocalAddr) && t.Type == cty.DynamicPseudoType && addrEqualSteps(lang.Address(cAddr[:len(t.LocalAddr)]), t.LocalAddr) {
									okLocal = true
								}
							}
						}
					}
					if !okPath {
						viol("RESOLVE in-wrong-path kind="+kind, fmt.Sprintf("origin %s at %s was resolved against path %s, which no origin at that place points into", addr, fmtRange(or), rt.Path.Path))
						continue
					}
					if kind == "block-local-name" {
						if !okLocal && !okAbsOnly {
							viol("RESOLVE block-local-name-across-blocks", fmt.Sprintf("block-local name %s at %s resolved to %s which is not a local declaration visible from there", addr, fmtRange(or), fmtRange(rt.Range)))
						}
					} else if !okAddr && !okLocal {
						viol("RESOLVE declaration-of-other-address kind="+kind, fmt.Sprintf("origin %s at %s resolved to a declaration at %s that does not carry that address", addr, fmtRange(or), fmtRange(rt.Range)))
					}
					// (iv) inverse
					if rt.DefRangePtr == nil {
						continue
					}
					dtab := env.Tables[rt.Path.Path][rt.DefRangePtr.Filename]
					if dtab == nil {
						continue
					}
					dbytes := []int{rt.DefRangePtr.Start.Byte}
					// (on broken files parser recovery yields headers that span unrelated text:
					// only the start of the definition range is asked there)
					if rt.DefRangePtr.End.Byte-rt.DefRangePtr.Start.Byte > 2 && (st.Mut.Kind == "none" || st.Mut.Kind == "") {
						dbytes = append(dbytes, (rt.DefRangePtr.Start.Byte+rt.DefRangePtr.End.Byte)/2)
					}
					for _, db := range dbytes {
						dpos, ok := dtab.At(db)
						if !ok {
							continue
						}
						rep.Mark(idx, sti, b, db)
						fr := env.Run(core.Query{Kind: core.QFindRefs, Path: rt.Path.Path, File: rt.DefRangePtr.Filename, Pos: dpos})
						rep.Eval(1)
						ros, _ := fr.Value.(decoder.ReferenceOrigins)
						found := false
						for _, ro := range ros {
							if ro.Path.Path == path && ro.Range == or {
								found = true
							}
						}
						if !found {
							viol("INVERSE find-references-misses-origin kind="+kind, fmt.Sprintf("go-to-definition from %s at %s reports the declaration at %s (%s), but find-references asked at byte %d of its definition range does not report that origin", addr, fmtRange(or), fmtRange(rt.Range), rt.Path.Path, db))
						}
					}
					rep.NonTrivial(fmt.Sprintf("%s|%s|%s|%d", rc, kind, path, or.Start.Byte))
					if rep.NumSamples() < 5 {
						rep.Sample(map[string]interface{}{"source": rc.String(), "origin": addr.String(), "origin_kind": kind, "origin_range": fmtRange(or), "declaration_path": rt.Path.Path, "declaration_range": fmtRange(rt.Range)})
					}
				}
				// (v) completeness for the simple type-less case
				if lo, ok := o.(reference.LocalOrigin); ok && kind == "local" && b == or.Start.Byte {
					for _, t := range flat[path] {
						if t.Type.Equals(ctyNil) && t.RangePtr != nil && addrEqualSteps(t.Addr, lo.Addr) && len(t.LocalAddr) == 0 {
							match := false
							for _, c := range lo.Constraints {
								if c.OfType.Equals(ctyNil) && c.OfScopeId == t.ScopeId && c.OfScopeId != "" {
									match = true
								}
							}
							if !match {
								continue
							}
							reported := false
							for _, rt := range rts {
								if rt.Range == *t.RangePtr && rt.Path.Path == path {
									reported = true
								}
							}
							if !reported {
								viol("RESOLVE misses-typeless-declaration", fmt.Sprintf("origin %s (scope %s) does not resolve to the type-less declaration of the same address and scope at %s", lo.Addr, t.ScopeId, fmtRange(*t.RangePtr)))
							}
						}
					}
				}
			}
		}
	}
}

func (p c11) Replay(w *runner.Witness, rep *runner.Reporter) error {
	var u diffUnit
	if err := json.Unmarshal(w.Unit, &u); err != nil {
		return err
	}
	p.check(0, 0, u.Recipe, State{u.Path, u.File, u.Mut}, rep)
	return nil
}

var _ = hcl.Range{}

func init() { Register(c11{}) }

// addrEqualSteps compares two addresses step by step (kind and value of every step):
// the harness' own notion of "the same address", independent of how addresses render.
func addrEqualSteps(a, b lang.Address) bool {
	if len(a) != len(b) {
		return false
	}
	for i := range a {
		if fmt.Sprintf("%T", a[i]) != fmt.Sprintf("%T", b[i]) || a[i].String() != b[i].String() {
			return false
		}
	}
	return true
}
