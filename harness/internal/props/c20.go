package props

import (
	"encoding/json"
	"fmt"
	"math/rand"
	"sort"
	"strings"

	"github.com/hashicorp/hcl-lang/lang"
	"github.com/hashicorp/hcl-lang/schema"
	"github.com/hashicorp/hcl/v2"
	"github.com/hashicorp/hcl/v2/hclsyntax"
	"github.com/zclconf/go-cty/cty"
	"github.com/zclconf/go-cty/cty/function"

	"verifharness/internal/core"
	"verifharness/internal/gen"
	"verifharness/internal/runner"
)

// C20: signature help names the innermost enclosing call and the argument
// being typed.

type c20 struct{}

func (c20) ID() string { return "C20" }
func (c20) Meta() Meta {
	return Meta{
		Level:       "exploration",
		Rule:        "reference-model monitor: seeded files of call-heavy expressions (0..3 fixed parameters with/without variadic, namespaced and unknown functions, nesting up to 3, arguments that are strings containing commas and parentheses, templates, lists, objects, trailing commas, argument counts below / at / above the arity); each file is placed in TWO paths of one Decoder whose function sets declare the same names with different signatures, and the paths are asked alternately cursor by cursor; for EVERY cursor of each well-formed file SignatureAtPos is compared (per path, with that path's signatures) with M-sig, computed from the parser's call tree and the lexer's comma tokens: a signature iff the cursor is strictly inside the parentheses of a known call (or on a known parameterless call), that of the innermost such call, parameters = fixed + variadic, active parameter = commas of that call to the left of the cursor clamped to the variadic one, none with surplus arguments and no variadic. On byte prefixes of those files (half-typed calls) only soundness is checked: named function known, parameter list right, active index valid. distinct non-trivial = (function shape, argument slot, nesting depth, cursor class) of cursor cases where a signature is expected.",
		Assumptions: []string{"the cursor class 'directly before the opening parenthesis' is decided as 'not inside'"},
		Floor:       map[string]int{"quick": 60, "thorough": 150},
		CaseBudget:  60,
	}
}

func c20Params(tier string) (files, exprs int) {
	if tier == "thorough" {
		return 400, 14
	}
	return 60, 10
}

type callGen struct{ r *rand.Rand }

var c20Funcs = []string{"f0", "upper", "length", "f2", "f3", "join", "v0", "any", "tolist", "ns::fn", "nope", "also_unknown"}

func (g *callGen) atom() string {
	switch g.r.Intn(9) {
	case 0:
		return `"plain"`
	case 1:
		return `"a, b (c) )"`
	case 2:
		return `"x-${var.a}-y"`
	case 3:
		return "var.a"
	case 4:
		return "42"
	case 5:
		return `["p", "q,r"]`
	case 6:
		return `{ k = "v, w", l = 1 }`
	case 7:
		return "true"
	default:
		return "local.b[0]"
	}
}

func (g *callGen) expr(depth int) string {
	if depth <= 0 || g.r.Intn(4) == 0 {
		return g.atom()
	}
	name := c20Funcs[g.r.Intn(len(c20Funcs))]
	n := g.r.Intn(5)
	if name == "f0" && g.r.Intn(3) > 0 {
		n = 0
	}
	args := make([]string, n)
	for i := range args {
		args[i] = g.expr(depth - 1)
	}
	sep := []string{", ", ",", " , ", ",\n    ", ", /* c */ ", ", /* a, b */ ", " /* x, y */ , ", ", # c, d\n    ", " # e,\n    , "}[g.r.Intn(9)]
	if g.r.Intn(3) > 0 {
		sep = []string{", ", ",", " , ", ",\n    "}[g.r.Intn(4)] // comments inside argument lists are the rarer case
	}
	inner := strings.Join(args, sep)
	// the last argument may be expanded (args...)
	if n > 0 && g.r.Intn(12) == 0 && (strings.HasPrefix(args[n-1], "[") || strings.HasPrefix(args[n-1], "var.") || strings.HasPrefix(args[n-1], "local.")) {
		inner += "..."
	}
	if n > 0 && g.r.Intn(6) == 0 {
		inner += ","
	}
	pad := []string{"", " "}[g.r.Intn(2)]
	call := name + "(" + pad + inner + pad + ")"
	switch g.r.Intn(8) {
	case 0:
		return "(" + call + ")"
	case 1:
		return `"t-${` + call + `}"`
	case 2:
		return "[" + call + ", " + g.atom() + "]"
	}
	return call
}

func c20Source(seed int64, nExpr int) string {
	g := &callGen{r: rand.New(rand.NewSource(seed))}
	var sb strings.Builder
	for i := 0; i < nExpr; i++ {
		fmt.Fprintf(&sb, "x%d = %s\n", i, g.expr(3))
	}
	sb.WriteString("blk {\n  y = " + g.expr(2) + "\n}\n")
	return sb.String()
}

func c20Workspace(src string) *core.Workspace {
	root := &schema.BodySchema{
		AnyAttribute: &schema.AttributeSchema{IsOptional: true, Constraint: schema.AnyExpression{OfType: cty.DynamicPseudoType}},
		Blocks: map[string]*schema.BlockSchema{"blk": {Body: &schema.BodySchema{Attributes: map[string]*schema.AttributeSchema{
			"y": {IsOptional: true, Constraint: schema.AnyExpression{OfType: cty.String}}}}}},
	}
	// two paths with the same text and the same function NAMES but different signatures:
	// whatever is remembered about a function must not travel between paths
	return &core.Workspace{Paths: map[string]*core.PathSpec{
		"/sig":  {Schema: root, Files: map[string]string{"main.tf": src}, Functions: copiedFunctions(gen.Functions())},
		"/sig2": {Schema: root, Files: map[string]string{"main.tf": src}, Functions: c20OtherFunctions()},
	}, Order: []string{"/sig", "/sig2"}}
}

// copiedFunctions hands every signature over as a Copy() of itself, the way a client
// that keeps one base set and gives each path its own copy does.
func copiedFunctions(in map[string]schema.FunctionSignature) map[string]schema.FunctionSignature {
	out := make(map[string]schema.FunctionSignature, len(in))
	for k, v := range in {
		v := v
		out[k] = *v.Copy()
	}
	return out
}

// c20OtherFunctions declares the functions of gen.Functions() with other
// parameter lists (names, arity, variadic or not).
func c20OtherFunctions() map[string]schema.FunctionSignature {
	return map[string]schema.FunctionSignature{
		"f0":     {Description: "other f0 takes one", ReturnType: cty.String, Params: []function.Parameter{{Name: "only", Type: cty.String}}},
		"upper":  {Description: "other upper", ReturnType: cty.String, Params: []function.Parameter{{Name: "text", Type: cty.String}, {Name: "locale", Type: cty.String}}},
		"length": {Description: "other length", ReturnType: cty.Number, VarParam: &function.Parameter{Name: "values", Type: cty.DynamicPseudoType}},
		"f2":     {Description: "other f2", ReturnType: cty.String, Params: []function.Parameter{{Name: "x", Type: cty.String}}},
		"f3":     {Description: "other f3", ReturnType: cty.Bool},
		"join":   {Description: "other join", ReturnType: cty.String, Params: []function.Parameter{{Name: "glue", Type: cty.String}, {Name: "first", Type: cty.List(cty.String)}}, VarParam: &function.Parameter{Name: "rest", Type: cty.List(cty.String)}},
		"v0":     {Description: "other v0", ReturnType: cty.Number, Params: []function.Parameter{{Name: "n", Type: cty.Number}}},
		"any":    {Description: "other any", ReturnType: cty.DynamicPseudoType, Params: []function.Parameter{{Name: "one", Type: cty.DynamicPseudoType}}, VarParam: &function.Parameter{Name: "more", Type: cty.DynamicPseudoType}},
		"ns::fn": {Description: "other namespaced", ReturnType: cty.String, Params: []function.Parameter{{Name: "p", Type: cty.String}, {Name: "q", Type: cty.String}}},
		"nope":   {Description: "known only here", ReturnType: cty.String, Params: []function.Parameter{{Name: "z", Type: cty.String}}},
	}
}

func (p c20) NumUnits(tier string, seed int64) int {
	f, _ := c20Params(tier)
	return f
}

type callInfo struct {
	node   *hclsyntax.FunctionCallExpr
	depth  int
	commas []int // byte offsets of this call's own commas
}

// callsOf lists all function calls of a body with nesting depth.
func callsOf(body *hclsyntax.Body, src []byte) []callInfo {
	var out []callInfo
	toks, _ := hclsyntax.LexConfig(src, "x", hcl.InitialPos)
	var stack []*hclsyntax.FunctionCallExpr
	hclsyntax.Walk(body, walkFuncs{
		enter: func(n hclsyntax.Node) {
			if fc, ok := n.(*hclsyntax.FunctionCallExpr); ok {
				ci := callInfo{node: fc, depth: len(stack)}
				// commas of this call: comma tokens inside the parentheses that are not inside any argument
				for _, t := range toks {
					if t.Type != hclsyntax.TokenComma {
						continue
					}
					b := t.Range.Start.Byte
					if b < fc.OpenParenRange.End.Byte || b >= fc.CloseParenRange.Start.Byte {
						continue
					}
					inArg := false
					for _, a := range fc.Args {
						if b >= a.Range().Start.Byte && b < a.Range().End.Byte {
							inArg = true
						}
					}
					if !inArg {
						ci.commas = append(ci.commas, b)
					}
				}
				out = append(out, ci)
				stack = append(stack, fc)
			}
		},
		exit: func(n hclsyntax.Node) {
			if _, ok := n.(*hclsyntax.FunctionCallExpr); ok {
				stack = stack[:len(stack)-1]
			}
		},
	})
	return out
}

type walkFuncs struct {
	enter, exit func(hclsyntax.Node)
}

func (w walkFuncs) Enter(n hclsyntax.Node) hcl.Diagnostics { w.enter(n); return nil }
func (w walkFuncs) Exit(n hclsyntax.Node) hcl.Diagnostics  { w.exit(n); return nil }

func paramNames(f schema.FunctionSignature) []string {
	var out []string
	for _, p := range f.Params {
		out = append(out, p.Name)
	}
	if f.VarParam != nil {
		out = append(out, f.VarParam.Name)
	}
	return out
}

func (p c20) RunUnit(idx int, tier string, seed int64, focus map[string]string, rep *runner.Reporter) {
	_, nExpr := c20Params(tier)
	src := c20Source(seed*7919+int64(idx), nExpr)
	if idx%4 == 3 {
		src = strings.ReplaceAll(src, "\n", "\r\n") // CRLF files: line breaks inside argument lists
	}
	p.checkFile(idx, seed*7919+int64(idx), src, true, -1, "", rep)
	// half-typed calls: byte prefixes (soundness only)
	rnd := unitRand(seed, "C20", idx)
	for i := 0; i < 12; i++ {
		cut := rnd.Intn(len(src))
		p.checkFile(idx, seed*7919+int64(idx), src[:cut], false, -1, "", rep)
	}
}

func (p c20) checkFile(unit int, fseed int64, src string, exact bool, only int, onlyPath string, rep *runner.Reporter) {
	ws := c20Workspace(src)
	env := ws.Build(false)
	pc := env.PathCtx["/sig"]
	f := pc.Files["main.tf"]
	if f == nil {
		return
	}
	body, ok := f.Body.(*hclsyntax.Body)
	if !ok {
		return
	}
	_, pdiags := hclsyntax.ParseConfig([]byte(src), "main.tf", hcl.InitialPos)
	wellFormed := !pdiags.HasErrors()
	if exact && !wellFormed {
		rep.Count("generated_files_with_parse_errors", 1)
		exact = false
	}
	calls := callsOf(body, []byte(src))
	tab := env.Tables["/sig"]["main.tf"]
	offs := tab.Offsets()
	if only >= 0 {
		offs = []int{only}
	}
	type keptSig struct {
		sig  *lang.FunctionSignature
		dump string
		q    core.Query
		unit []byte
		path string
	}
	var kept []keptSig
	sigDump := func(s *lang.FunctionSignature) string {
		var ps []string
		for _, pr := range s.Parameters {
			ps = append(ps, pr.Name+"|"+pr.Description.Value)
		}
		return fmt.Sprintf("%s active=%d [%s] %s", s.Name, s.ActiveParameter, strings.Join(ps, ";"), s.Description.Value)
	}
	one := func(path string, off int) {
		// the model reads the signatures as they were declared, not the copies handed to the library
		funcs := map[string]map[string]schema.FunctionSignature{"/sig": gen.Functions(), "/sig2": c20OtherFunctions()}[path]
		pos, ok := tab.At(off)
		if !ok {
			return
		}
		rep.Mark(unit, off, -1, -1)
		q := core.Query{Kind: core.QSignature, Path: path, File: "main.tf", Pos: pos}
		r := env.Run(q)
		rep.Eval(1)
		if r.Panic != nil {
			return
		}
		sig, _ := r.Value.(*lang.FunctionSignature)
		unitJSON := mustJSON(map[string]interface{}{"file_seed": fseed, "source": src, "byte": off, "exact": exact, "path": path})
		if sig != nil && len(kept) < 600 {
			// an answer is the caller's: it is looked at again after all later requests
			kept = append(kept, keptSig{sig, sigDump(sig), q, unitJSON, path})
		}
		viol := func(sg, what, exp string) {
			obs := "no signature"
			if sig != nil {
				obs = fmt.Sprintf("%s active=%d params=%d", sig.Name, sig.ActiveParameter, len(sig.Parameters))
			}
			rep.Violation(&runner.Witness{Sig: sg, What: what, Unit: unitJSON, Files: map[string]string{path + "/main.tf": src}, Query: q.String(), Expected: exp, Observed: obs})
		}
		// ---- soundness (all files)
		if sig != nil {
			fname := sig.Name
			if i := strings.Index(fname, "("); i > 0 {
				fname = fname[:i]
			}
			fs, known := funcs[fname]
			if !known {
				viol("SIG unknown-function", fmt.Sprintf("signature %q names a function that is not known", sig.Name), "")
				return
			}
			want := paramNames(fs)
			var got []string
			for _, pr := range sig.Parameters {
				got = append(got, pr.Name)
			}
			if strings.Join(got, ",") != strings.Join(want, ",") {
				viol("SIG parameter-list", fmt.Sprintf("parameters %v, the function declares %v", got, want), strings.Join(want, ","))
			}
			if len(want) > 0 && int(sig.ActiveParameter) >= len(want) {
				viol("SIG active-index-out-of-range", fmt.Sprintf("active parameter %d but only %d parameters", sig.ActiveParameter, len(want)), "")
			}
			// some known call must hold the cursor
			held := false
			for _, c := range calls {
				if c.node.Name == fname && c.node.Range().Start.Byte <= off && off <= c.node.Range().End.Byte {
					held = true
				}
			}
			if !held && wellFormed {
				viol("SIG no-such-call-at-cursor", fmt.Sprintf("signature of %s although no call of it holds the cursor", fname), "")
			}
		}
		if !exact {
			return
		}
		// ---- exactness (well-formed files): M-sig
		var inner *callInfo
		onParamless := false
		for i := range calls {
			c := &calls[i]
			fs, known := funcs[c.node.Name]
			if !known {
				continue
			}
			paramless := len(fs.Params) == 0 && fs.VarParam == nil
			inside := off >= c.node.OpenParenRange.End.Byte && off <= c.node.CloseParenRange.Start.Byte
			on := paramless && off >= c.node.Range().Start.Byte && off < c.node.Range().End.Byte
			if inside || on {
				if inner == nil || c.depth >= inner.depth {
					inner = c
					onParamless = on && !inside
				}
			}
		}
		cursorClass := "inside"
		for _, c := range calls {
			if _, known := funcs[c.node.Name]; known && off == c.node.OpenParenRange.Start.Byte {
				cursorClass = "before-open-paren"
			}
		}
		if inner == nil {
			if sig != nil {
				viol("SIG unexpected cursor="+cursorClass, "a signature is returned although the cursor is not inside the parentheses of a known call", "no signature")
			}
			return
		}
		fs := funcs[inner.node.Name]
		params := paramNames(fs)
		commasLeft := 0
		for _, cb := range inner.commas {
			if cb < off {
				commasLeft++
			}
		}
		slot := fmt.Sprintf("slot%d", commasLeft)
		key := fmt.Sprintf("%s|%s/%d+%t|%s|depth%d", path, inner.node.Name, len(fs.Params), fs.VarParam != nil, slot, inner.depth)
		if len(params) == 0 {
			if sig == nil {
				viol("SIG missing paramless", fmt.Sprintf("no signature on the call of parameterless %s", inner.node.Name), inner.node.Name)
			} else if !strings.HasPrefix(sig.Name, inner.node.Name+"(") {
				viol("SIG wrong-call paramless", fmt.Sprintf("signature of %s, expected %s", sig.Name, inner.node.Name), inner.node.Name)
			}
			rep.NonTrivial(key + "|" + fmt.Sprint(onParamless))
			return
		}
		want := commasLeft
		surplus := false
		if want >= len(params) {
			if fs.VarParam == nil {
				surplus = true
			} else {
				want = len(params) - 1
			}
		}
		if surplus {
			// none expected; an enclosing valid call's signature is a declared don't-care
			sameNameOuter := false
			for i := range calls {
				c := &calls[i]
				if c != inner && c.node.Name == inner.node.Name && off >= c.node.OpenParenRange.End.Byte && off <= c.node.CloseParenRange.Start.Byte {
					sameNameOuter = true
				}
			}
			if sig != nil && strings.HasPrefix(sig.Name, inner.node.Name+"(") && !sameNameOuter {
				viol("SIG surplus-arguments", fmt.Sprintf("signature of %s returned although %d arguments precede the cursor and it takes %d", inner.node.Name, commasLeft, len(params)), "no signature")
			} else if sig != nil {
				// the innermost call has more arguments than parameters: none is returned - not
				// the signature of a call further out either
				viol("SIG surplus-arguments outer-call-returned", fmt.Sprintf("signature of %s returned although the innermost enclosing call %s has %d arguments before the cursor and takes %d", sig.Name, inner.node.Name, commasLeft, len(params)), "no signature")
			}
			return
		}
		rep.NonTrivial(key)
		if sig == nil {
			viol("SIG missing slot="+slotClass(commasLeft, inner, off), fmt.Sprintf("no signature although the cursor is inside the parentheses of %s (argument slot %d)", inner.node.Name, commasLeft), fmt.Sprintf("%s active=%d", inner.node.Name, want))
			return
		}
		if !strings.HasPrefix(sig.Name, inner.node.Name+"(") {
			viol("SIG not-innermost", fmt.Sprintf("signature of %s, but the innermost enclosing known call is %s", sig.Name, inner.node.Name), inner.node.Name)
			return
		}
		if int(sig.ActiveParameter) != want {
			viol("SIG wrong-active-parameter slot="+slotClass(commasLeft, inner, off), fmt.Sprintf("%s: active parameter %d, but %d commas precede the cursor (expected %d)", inner.node.Name, sig.ActiveParameter, commasLeft, want), fmt.Sprintf("active=%d", want))
		}
		if rep.NumSamples() < 5 && inner.depth > 0 {
			rep.Sample(map[string]interface{}{"cursor_byte": off, "line": strings.Split(src, "\n")[pos.Line-1], "column": pos.Column, "innermost_call": inner.node.Name, "commas_left": commasLeft, "expected_active": want, "got": sig.Name, "got_active": sig.ActiveParameter})
		}
	}
	for _, off := range offs {
		// the paths alternate cursor by cursor
		for _, path := range ws.Order {
			if onlyPath != "" && path != onlyPath {
				continue
			}
			one(path, off)
		}
	}
	if only >= 0 {
		// (single-cursor replay: the neighbouring cursors are asked too, so that a later
		// request exists)
		for _, d := range []int{-2, -1, 1, 2, 3} {
			for _, path := range ws.Order {
				if pos, ok := tab.At(only + d); ok {
					env.Run(core.Query{Kind: core.QSignature, Path: path, File: "main.tf", Pos: pos})
				}
			}
		}
	}
	for _, k := range kept {
		rep.Count("answers_looked_at_again", 1)
		if now := sigDump(k.sig); now != k.dump {
			rep.Violation(&runner.Witness{Sig: "SIG answer-changed-by-later-requests", What: "a signature returned earlier reads differently after later signature requests on the same path context (the answer is shared with later answers)",
				Unit: k.unit, Files: map[string]string{k.path + "/main.tf": src}, Query: k.q.String(), Expected: "as returned: " + k.dump, Observed: "after later requests: " + now})
		}
	}
}

// slotClass describes where in the slot the cursor is (for narrow signatures).
func slotClass(commasLeft int, c *callInfo, off int) string {
	for _, a := range c.node.Args {
		if off >= a.Range().Start.Byte && off <= a.Range().End.Byte {
			return "in-argument"
		}
	}
	// in blanks
	last := -1
	for i, a := range c.node.Args {
		if a.Range().End.Byte <= off {
			last = i
		}
	}
	commas := 0
	for _, cb := range c.commas {
		if cb < off {
			commas++
		}
	}
	if last >= 0 && commas <= last {
		return "blank-after-argument"
	}
	return "blank-after-comma-or-paren"
}

func (p c20) Replay(w *runner.Witness, rep *runner.Reporter) error {
	var u struct {
		Seed  int64  `json:"file_seed"`
		Src   string `json:"source"`
		Byte  int    `json:"byte"`
		Exact bool   `json:"exact"`
		Path  string `json:"path"`
	}
	if err := json.Unmarshal(w.Unit, &u); err != nil {
		return err
	}
	p.checkFile(0, u.Seed, u.Src, u.Exact, u.Byte, u.Path, rep)
	return nil
}

var _ = sort.Strings

func init() { Register(c20{}) }
