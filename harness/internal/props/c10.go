package props

import (
	"encoding/json"
	"fmt"
	"sort"
	"strings"

	"github.com/hashicorp/hcl-lang/lang"
	"github.com/hashicorp/hcl-lang/reference"
	"github.com/hashicorp/hcl-lang/schema"
	"github.com/hashicorp/hcl/v2"
	"github.com/hashicorp/hcl/v2/hclsyntax"
	"github.com/zclconf/go-cty/cty"

	"verifharness/internal/core"
	"verifharness/internal/model"
	"verifharness/internal/runner"
)

// C10: reference origins are exactly the references written in schema-known
// values. M-orig: HCL's own Variables() enumerates what is written; the
// constraint at that place (walked with the model's effective schema) decides
// whether a reference is admitted there.

type c10 struct{}

func (c10) ID() string { return "C10" }
func (c10) Meta() Meta {
	return Meta{
		Level: "exploration",
		Rule:  "reference-model monitor on fixtures and generated (reference-heavy) configurations, base files: every body is walked with the model's effective schema; for every written attribute the constraint is descended along the expression (AnyExpression: everything HCL's Variables() reports; Reference: the traversal itself; List/Set/Tuple/Map/Object: element-wise on literal collections; OneOf: admitted by any alternative; LiteralType/LiteralValue/Keyword/TypeDeclaration: nothing) giving the expected origins (address + exact range); CollectReferenceOrigins must contain exactly one origin for each, none inside literal-only places / unknown attributes / unknown blocks / text that HCL does not report as a traversal, self.* only where the body enables it, and be ordered by (file, start byte). distinct non-trivial = expected origins keyed by (enclosing expression kind, constraint kind, nesting).",
		Assumptions: []string{"declared don't-care zones (completeness not required, soundness still is): iterator variables of for expressions, arguments of unknown functions and beyond a known function's arity, operands of operators whose result type cannot convert to the expected type, interpolated map/object keys, count.* / each.* names, everything inside dynamic blocks",
			"PathOrigins / DirectOrigins produced from schema features (OriginForTarget, Targets, ImpliedOrigins) are checked by C11, not here"},
		Floor:      map[string]int{"quick": 60, "thorough": 200},
		CaseBudget: 60,
	}
}

func c10Params(tier string) (nGenQ, nGenT int) {
	if tier == "thorough" {
		return 600, 8000
	}
	return 600, 8000
}

func (p c10) NumUnits(tier string, seed int64) int {
	q, t := c10Params(tier)
	return len(diffSources(tier, seed, q, t))
}

type expOrigin struct {
	addr  string
	rng   hcl.Range
	where string // enclosing expression kind | constraint kind
	self  bool
	// optional: lies in a declared don't-care zone of the constraint branch that
	// expects it (completeness is not required, an origin there is fine)
	optional bool
	// forPart: a reference inside the key / value / condition of a for expression:
	// not required everywhere (nested for expressions shadow names), but if the
	// collection of the same for expression... see the uniqueness rule
	forPart bool
}

type origModel struct {
	funcs     map[string]schema.FunctionSignature
	expected  []expOrigin
	dontcare  []hcl.Range // completeness don't-care: anything may or may not be collected here
	forbid    []hcl.Range // literal-only / unknown places: nothing may be collected here
	finalized bool
}

// finalize marks the expectations that lie in a don't-care zone as optional.
func (m *origModel) finalize() {
	if m.finalized {
		return
	}
	for i := range m.expected {
		for _, z := range m.dontcare {
			if rangeWithin(m.expected[i].rng, z) {
				m.expected[i].optional = true
			}
		}
	}
	m.finalized = true
}

func travAddr(t hcl.Traversal) (string, bool) {
	a, err := lang.TraversalToAddress(t)
	if err != nil {
		return "", false
	}
	return a.String(), true
}

func exprKind(e hclsyntax.Expression) string {
	return strings.TrimSuffix(strings.TrimPrefix(fmt.Sprintf("%T", e), "*hclsyntax."), "Expr")
}

// anyExpr: everything HCL reports as a variable inside e is expected, except
// in the declared don't-care zones.
func (m *origModel) anyExpr(e hclsyntax.Expression, want cty.Type, consKind string, depth int) {
	switch t := e.(type) {
	case *hclsyntax.ScopeTraversalExpr:
		if a, ok := travAddr(t.Traversal); ok {
			m.expected = append(m.expected, expOrigin{addr: a, rng: t.Traversal.SourceRange(), where: fmt.Sprintf("%s|%s|d%d", "ScopeTraversal", consKind, depth), self: t.Traversal.RootName() == "self"})
		} else {
			m.dontcare = append(m.dontcare, t.Range())
		}
	case *hclsyntax.FunctionCallExpr:
		fs, known := m.funcs[t.Name]
		if !known {
			m.dontcare = append(m.dontcare, t.Range())
			return
		}
		for i, a := range t.Args {
			switch {
			case i < len(fs.Params):
				m.anyExpr(a, fs.Params[i].Type, consKind+">call", depth+1)
			case fs.VarParam != nil:
				m.anyExpr(a, fs.VarParam.Type, consKind+">call", depth+1)
			default:
				m.dontcare = append(m.dontcare, a.Range())
			}
		}
	case *hclsyntax.TemplateExpr:
		for _, part := range t.Parts {
			m.anyExpr(part, cty.DynamicPseudoType, consKind+">template", depth+1)
		}
	case *hclsyntax.TemplateWrapExpr:
		m.anyExpr(t.Wrapped, want, consKind+">template", depth+1)
	case *hclsyntax.ParenthesesExpr:
		m.anyExpr(t.Expression, want, consKind+">paren", depth+1)
	case *hclsyntax.ConditionalExpr:
		m.anyExpr(t.Condition, cty.Bool, consKind+">cond", depth+1)
		m.anyExpr(t.TrueResult, want, consKind+">cond", depth+1)
		m.anyExpr(t.FalseResult, want, consKind+">cond", depth+1)
	case *hclsyntax.BinaryOpExpr:
		if !opFits(t.Op.Type, want) {
			m.dontcare = append(m.dontcare, t.Range())
			return
		}
		// operands are read with the operator's parameter types (an operand that
		// cannot have that type is ill-typed: don't-care)
		lt, rt := cty.DynamicPseudoType, cty.DynamicPseudoType
		if ps := t.Op.Impl.Params(); len(ps) == 2 {
			lt, rt = ps[0].Type, ps[1].Type
		}
		m.anyExpr(t.LHS, lt, consKind+">binop", depth+1)
		m.anyExpr(t.RHS, rt, consKind+">binop", depth+1)
	case *hclsyntax.UnaryOpExpr:
		if !opFits(t.Op.Type, want) {
			m.dontcare = append(m.dontcare, t.Range())
			return
		}
		vt := cty.DynamicPseudoType
		if ps := t.Op.Impl.Params(); len(ps) == 1 {
			vt = ps[0].Type
		}
		m.anyExpr(t.Val, vt, consKind+">unop", depth+1)
	case *hclsyntax.TupleConsExpr:
		if want != cty.DynamicPseudoType && !(want.IsListType() || want.IsSetType() || want.IsTupleType()) {
			m.dontcare = append(m.dontcare, t.Range())
			return
		}
		for i, el := range t.Exprs {
			et := cty.DynamicPseudoType
			switch {
			case want.IsListType() || want.IsSetType():
				et = want.ElementType()
			case want.IsTupleType():
				if i >= len(want.TupleElementTypes()) {
					m.dontcare = append(m.dontcare, el.Range()) // surplus element: ill-typed
					continue
				}
				et = want.TupleElementType(i)
			}
			m.anyExpr(el, et, consKind+">tuple", depth+1)
		}
	case *hclsyntax.ObjectConsExpr:
		if want != cty.DynamicPseudoType && !(want.IsMapType() || want.IsObjectType()) {
			m.dontcare = append(m.dontcare, t.Range())
			return
		}
		for _, it := range t.Items {
			m.dontcare = append(m.dontcare, it.KeyExpr.Range())
			vt := cty.DynamicPseudoType
			switch {
			case want.IsMapType():
				vt = want.ElementType()
			case want.IsObjectType():
				key, _ := it.KeyExpr.Value(nil)
				if key.IsNull() || !key.IsWhollyKnown() || key.Type() != cty.String || !want.HasAttribute(key.AsString()) {
					m.dontcare = append(m.dontcare, it.ValueExpr.Range()) // not an attribute of the expected object type
					continue
				}
				vt = want.AttributeType(key.AsString())
			}
			m.anyExpr(it.ValueExpr, vt, consKind+">object", depth+1)
		}
	case *hclsyntax.ForExpr:
		// the collection is a written reference; bodies use iterator variables (don't-care)
		m.anyExpr(t.CollExpr, cty.DynamicPseudoType, consKind+">for", depth+1)
		for si, sub := range []hclsyntax.Expression{t.KeyExpr, t.ValExpr, t.CondExpr} {
			if sub != nil {
				m.dontcare = append(m.dontcare, sub.Range())
				// a plain traversal that is the whole key / value / condition operand and does
				// not start at an iterator variable is a written reference like any other
				// (only where the for expression is interpreted: an iterable expected type)
				if want == cty.DynamicPseudoType || want.IsCollectionType() || want.IsTupleType() || want.IsObjectType() {
					hclsyntax.VisitAll(sub, func(n hclsyntax.Node) hcl.Diagnostics {
						st, ok := n.(*hclsyntax.ScopeTraversalExpr)
						if !ok {
							return nil
						}
						root := st.Traversal.RootName()
						if root == t.KeyVar || root == t.ValVar {
							return nil
						}
						if a, ok := travAddr(st.Traversal); ok {
							m.expected = append(m.expected, expOrigin{addr: a, rng: st.Traversal.SourceRange(), where: fmt.Sprintf("ScopeTraversal|%s>for-%s|d%d", consKind, []string{"key", "value", "cond"}[si], depth), optional: true, forPart: true})
						}
						return nil
					})
				}
			}
		}
	case *hclsyntax.IndexExpr:
		m.anyExpr(t.Collection, cty.DynamicPseudoType, consKind+">index", depth+1)
		m.anyExpr(t.Key, cty.DynamicPseudoType, consKind+">index", depth+1)
	case *hclsyntax.SplatExpr:
		// a splat is not interpreted further: everything HCL reports as a variable of it is
		// a written reference - the source and whatever is written behind the splat
		// operator (index keys such as var.list[*].tags[var.key])
		for _, tr := range hclsyntax.Variables(t) {
			if a, ok := travAddr(tr); ok {
				m.expected = append(m.expected, expOrigin{addr: a, rng: tr.SourceRange(), where: fmt.Sprintf("ScopeTraversal|%s>splat|d%d", consKind, depth), self: tr.RootName() == "self"})
			} else {
				m.dontcare = append(m.dontcare, tr.SourceRange())
			}
		}
	case *hclsyntax.RelativeTraversalExpr:
		m.anyExpr(t.Source, cty.DynamicPseudoType, consKind+">relative", depth+1)
	case *hclsyntax.LiteralValueExpr, *hclsyntax.ObjectConsKeyExpr:
	default:
		m.dontcare = append(m.dontcare, e.Range())
	}
}

func opFits(ret cty.Type, want cty.Type) bool {
	return want == cty.DynamicPseudoType || want == ret || (want == cty.String && (ret == cty.Number || ret == cty.Bool))
}

func isStringLit(e hclsyntax.Expression) bool {
	if t, ok := e.(*hclsyntax.TemplateExpr); ok {
		return t.IsStringLiteral()
	}
	_, ok := e.(*hclsyntax.LiteralValueExpr)
	return ok
}

// admit descends a constraint along an expression.
func (m *origModel) admit(e hclsyntax.Expression, c schema.Constraint, depth int) {
	switch cons := c.(type) {
	case schema.AnyExpression:
		t := cons.OfType
		// literal collections of a complex expected type are read element-wise
		// with the element types; both views admit references
		m.anyExpr(e, t, "AnyExpression", depth)
	case schema.Reference:
		if st, ok := e.(*hclsyntax.ScopeTraversalExpr); ok {
			if a, ok := travAddr(st.Traversal); ok {
				m.expected = append(m.expected, expOrigin{addr: a, rng: st.Traversal.SourceRange(), where: fmt.Sprintf("ScopeTraversal|Reference|d%d", depth), self: st.Traversal.RootName() == "self"})
				return
			}
		}
		m.dontcare = append(m.dontcare, e.Range())
	case schema.List:
		m.elems(e, func(int) schema.Constraint { return cons.Elem }, depth)
	case schema.Set:
		m.elems(e, func(int) schema.Constraint { return cons.Elem }, depth)
	case schema.Tuple:
		m.elems(e, func(i int) schema.Constraint {
			if i < len(cons.Elems) {
				return cons.Elems[i]
			}
			return nil
		}, depth)
	case schema.Map:
		oc, ok := e.(*hclsyntax.ObjectConsExpr)
		if !ok || cons.Elem == nil {
			m.dontcare = append(m.dontcare, e.Range())
			return
		}
		for _, it := range oc.Items {
			m.dontcare = append(m.dontcare, it.KeyExpr.Range())
			m.admit(it.ValueExpr, cons.Elem, depth+1)
		}
	case schema.Object:
		oc, ok := e.(*hclsyntax.ObjectConsExpr)
		if !ok {
			m.dontcare = append(m.dontcare, e.Range())
			return
		}
		for _, it := range oc.Items {
			m.dontcare = append(m.dontcare, it.KeyExpr.Range())
			key, _ := it.KeyExpr.Value(nil)
			if key.IsNull() || !key.IsWhollyKnown() || key.Type() != cty.String {
				m.dontcare = append(m.dontcare, it.ValueExpr.Range())
				continue
			}
			as, ok := cons.Attributes[key.AsString()]
			if !ok || as.Constraint == nil {
				m.forbid = append(m.forbid, it.ValueExpr.Range())
				continue
			}
			m.admit(it.ValueExpr, as.Constraint, depth+1)
		}
	case schema.OneOf:
		// admitted by any alternative: every alternative is evaluated on its own
		// (its don't-care zones only weaken ITS expectations); an origin is required
		// as soon as one alternative requires it
		merged := map[hcl.Range]expOrigin{}
		var order []hcl.Range
		for _, alt := range cons {
			sub := &origModel{funcs: m.funcs}
			sub.admit(e, alt, depth)
			sub.finalize()
			for _, x := range sub.expected {
				if old, ok := merged[x.rng]; !ok {
					merged[x.rng] = x
					order = append(order, x.rng)
				} else if old.optional && !x.optional {
					merged[x.rng] = x
				}
			}
			m.dontcare = append(m.dontcare, sub.dontcare...)
		}
		for _, r := range order {
			x := merged[r]
			x.where = strings.Replace(x.where, "|", "|OneOf>", 1)
			m.expected = append(m.expected, x)
		}
		// soundness inside a OneOf value is not decided (alternatives may overlap)
		m.dontcare = append(m.dontcare, e.Range())
		m.finalized = true
	case schema.LiteralType, schema.LiteralValue, schema.Keyword, schema.TypeDeclaration:
		m.forbid = append(m.forbid, e.Range())
	default:
		m.dontcare = append(m.dontcare, e.Range())
	}
}

func (m *origModel) elems(e hclsyntax.Expression, cons func(int) schema.Constraint, depth int) {
	tc, ok := e.(*hclsyntax.TupleConsExpr)
	if !ok {
		m.dontcare = append(m.dontcare, e.Range())
		return
	}
	for i, el := range tc.Exprs {
		c := cons(i)
		if c == nil {
			m.dontcare = append(m.dontcare, el.Range())
			continue
		}
		m.admit(el, c, depth+1)
	}
}

func rangeWithin(inner, outer hcl.Range) bool {
	return inner.Filename == outer.Filename && inner.Start.Byte >= outer.Start.Byte && inner.End.Byte <= outer.End.Byte
}

func (m *origModel) body(body *hclsyntax.Body, e *model.Eff) {
	for name, attr := range body.Attributes {
		as, how := e.AttrSchema(name)
		if as == nil || as.Constraint == nil {
			if e.Known {
				m.forbid = append(m.forbid, attr.SrcRange)
			} else {
				m.dontcare = append(m.dontcare, attr.SrcRange)
			}
			continue
		}
		_ = how
		sub := &origModel{funcs: m.funcs}
		sub.admit(attr.Expr, as.Constraint, 0)
		sub.finalize()
		m.dontcare = append(m.dontcare, sub.dontcare...)
		m.forbid = append(m.forbid, sub.forbid...)
		// self.* only where the body enables them
		for _, x := range sub.expected {
			if x.self && !e.Ext.SelfRefs {
				m.forbid = append(m.forbid, x.rng)
				continue
			}
			m.expected = append(m.expected, x)
		}
	}
	for _, b := range body.Blocks {
		var bs *schema.BlockSchema
		if e.Known {
			bs = e.Blocks[b.Type]
		}
		if b.Type == "dynamic" && bs == nil && e.DynAncestor {
			m.dontcare = append(m.dontcare, b.Range())
			continue
		}
		if bs == nil {
			if e.Known {
				m.forbid = append(m.forbid, b.Range())
			} else {
				m.dontcare = append(m.dontcare, b.Range())
			}
			continue
		}
		if b.Body == nil {
			continue
		}
		if bs.Body == nil && len(bs.DependentBody) == 0 {
			m.dontcare = append(m.dontcare, b.Range())
			continue
		}
		m.body(b.Body, model.Effective(b, bs, e))
	}
}

func (p c10) RunUnit(idx int, tier string, seed int64, focus map[string]string, rep *runner.Reporter) {
	q, t := c10Params(tier)
	srcs := diffSources(tier, seed, q, t)
	if idx >= len(srcs) {
		return
	}
	p.check(idx, srcs[idx].Recipe, rep)
}

func (p c10) check(unit int, rc Recipe, rep *runner.Reporter) {
	ws, err := rc.Make()
	if err != nil {
		return
	}
	env := ws.Build(true)
	for _, path := range ws.Order {
		pc := env.PathCtx[path]
		if pc.Schema == nil {
			continue
		}
		r := env.Run(core.Query{Kind: core.QCollectOrigins, Path: path})
		rep.Eval(1)
		if r.Panic != nil || r.Err != nil {
			continue
		}
		origins := r.Value.(reference.Origins)
		unitJSON := mustJSON(diffUnit{Recipe: rc, Path: path, Kind: core.QCollectOrigins.String()})
		// ordering by (file, start byte)
		for i := 1; i < len(origins); i++ {
			a, b := origins[i-1].OriginRange(), origins[i].OriginRange()
			if a.Filename > b.Filename || (a.Filename == b.Filename && a.Start.Byte > b.Start.Byte) {
				rep.Violation(&runner.Witness{Sig: "ORIGINS unordered", What: fmt.Sprintf("origins are not ordered by file and position: %s before %s", fmtRange(a), fmtRange(b)), Unit: unitJSON, Files: filesOf(ws)})
				break
			}
		}
		m := &origModel{funcs: pc.Functions}
		nativeFiles := map[string]bool{}
		for _, file := range env.SortedFiles(path) {
			body, ok := pc.Files[file].Body.(*hclsyntax.Body)
			if !ok {
				continue
			}
			nativeFiles[file] = true
			m.body(body, model.EffRoot(pc.Schema))
		}
		// index observed local origins by range
		type obs struct {
			addr string
			n    int
		}
		observed := map[hcl.Range]*obs{}
		for _, o := range origins {
			lo, ok := o.(reference.LocalOrigin)
			if !ok {
				continue
			}
			if !nativeFiles[lo.Range.Filename] {
				continue
			}
			if x, dup := observed[lo.Range]; dup {
				x.n++
			} else {
				observed[lo.Range] = &obs{addr: lo.Addr.String(), n: 1}
			}
		}
		inAny := func(rs []hcl.Range, r hcl.Range) bool {
			for _, x := range rs {
				if rangeWithin(r, x) {
					return true
				}
			}
			return false
		}
		expectedAt := map[hcl.Range]expOrigin{}
		for _, x := range m.expected {
			expectedAt[x.rng] = x
		}
		// completeness
		for _, x := range m.expected {
			if x.optional {
				// expected origins inside a don't-care zone are not required ...
				if _, ok := observed[x.rng]; !ok {
					continue
				}
			}
			o, ok := observed[x.rng]
			nt := strings.Join(strings.Split(x.where, "|")[:2], "|")
			if !ok {
				rep.Violation(&runner.Witness{Sig: "ORIGINS missing " + simplifyWhere(x.where), What: fmt.Sprintf("the reference %s written at %s (%s) has no origin", x.addr, fmtRange(x.rng), x.where), Unit: unitJSON, Files: filesOf(ws)})
				continue
			}
			rep.NonTrivial(simplifyWhere(x.where))
			_ = nt
			if o.addr != x.addr {
				rep.Violation(&runner.Witness{Sig: "ORIGINS wrong-address " + simplifyWhere(x.where), What: fmt.Sprintf("origin at %s has address %s, the text denotes %s", fmtRange(x.rng), o.addr, x.addr), Unit: unitJSON, Files: filesOf(ws)})
			}
			if o.n > 1 {
				rep.Violation(&runner.Witness{Sig: "ORIGINS duplicate " + simplifyWhere(x.where), What: fmt.Sprintf("%d origins for the one reference %s at %s", o.n, x.addr, fmtRange(x.rng)), Unit: unitJSON, Files: filesOf(ws)})
			}
		}
		// uniqueness everywhere: one written reference, one origin (also in don't-care zones)
		for rng, o := range observed {
			if _, isExpected := expectedAt[rng]; isExpected && !expectedAt[rng].optional {
				continue // reported above
			}
			if o.n > 1 {
				rep.Violation(&runner.Witness{Sig: "ORIGINS duplicate elsewhere", What: fmt.Sprintf("%d origins with the address %s at the one place %s", o.n, o.addr, fmtRange(rng)), Unit: unitJSON, Files: filesOf(ws)})
			}
		}
		// soundness
		for rng, o := range observed {
			if _, ok := expectedAt[rng]; ok {
				continue
			}
			if inAny(m.forbid, rng) && !inAny(m.dontcare, rng) {
				rep.Violation(&runner.Witness{Sig: "ORIGINS unexpected in-literal-or-unknown-place", What: fmt.Sprintf("origin %s at %s lies in a place reserved for literals / unknown to the schema / not enabled", o.addr, fmtRange(rng)), Unit: unitJSON, Files: filesOf(ws)})
				continue
			}
			if !inAny(m.dontcare, rng) {
				rep.Violation(&runner.Witness{Sig: "ORIGINS unexpected not-a-written-reference", What: fmt.Sprintf("origin %s at %s does not correspond to a reference HCL reports at that place", o.addr, fmtRange(rng)), Unit: unitJSON, Files: filesOf(ws)})
			}
		}
		rep.Count("expected_origins", int64(len(m.expected)))
		rep.Eval(int64(len(m.expected) + len(observed)))
		rep.Count("observed_local_origins", int64(len(observed)))
		if rep.NumSamples() < 4 && len(m.expected) > 3 {
			var ex []string
			for i, x := range m.expected {
				if i < 6 {
					ex = append(ex, fmt.Sprintf("%s @%s (%s)", x.addr, fmtRange(x.rng), x.where))
				}
			}
			rep.Sample(map[string]interface{}{"source": rc.String(), "path": path, "expected_origins": len(m.expected), "observed_local_origins": len(observed), "dont_care_zones": len(m.dontcare), "forbidden_zones": len(m.forbid), "first_expected": ex})
		}
	}
}

func simplifyWhere(w string) string {
	parts := strings.Split(w, "|")
	if len(parts) >= 2 {
		// collapse repeated nesting markers
		chain := strings.Split(parts[1], ">")
		var out []string
		for i, c := range chain {
			if i == 0 || c != chain[i-1] {
				out = append(out, c)
			}
		}
		if len(out) > 4 {
			out = append(out[:2], out[len(out)-2:]...)
		}
		return strings.Join(out, ">")
	}
	return w
}

func (p c10) Replay(w *runner.Witness, rep *runner.Reporter) error {
	var u diffUnit
	if err := json.Unmarshal(w.Unit, &u); err != nil {
		return err
	}
	p.check(0, u.Recipe, rep)
	return nil
}

var _ = sort.Strings

func init() { Register(c10{}) }
