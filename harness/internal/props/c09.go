package props

import (
	"encoding/json"
	"fmt"
	"strings"

	"github.com/hashicorp/hcl-lang/lang"
	"github.com/hashicorp/hcl-lang/reference"
	"github.com/hashicorp/hcl-lang/schema"
	"github.com/hashicorp/hcl/v2"
	"github.com/hashicorp/hcl/v2/hclsyntax"
	"github.com/zclconf/go-cty/cty"

	"verifharness/internal/core"
	"verifharness/internal/model"
	"verifharness/internal/runner"
)

// C09: reference targets are exactly the addressable declarations the schema
// describes.

type c09 struct{}

func (c09) ID() string { return "C09" }
func (c09) Meta() Meta {
	return Meta{
		Level:       "exploration",
		Rule:        "reference-model monitor: on valid fixture and generated configurations every body is walked with the model's effective schema and the list of addressable declarations is derived (blocks: address from static / label / literal attribute-value steps, one expected target per enabled form - as reference, body as data, dependent body as data, as type of an attribute, unknown nested refs; attributes: as reference / as expression type); CollectReferenceTargets must contain, for each, a target with that address, scope, the declaration's extent as range and its header as definition range (and the literal's type for primitive literal values), and no top-level target whose range is not such a declaration (or a count/for_each attribute / targetable body). Structural invariants on every collected tree, also on byte prefixes and token edits: a nested target's address (and local address) extends its parent's by exactly one step, and its block-local address ends in the same step as its absolute address; an index step of a block collection denotes the block's real position (list) or written key (map) and its range is exactly that block's extent; nested ranges lie inside their parent's; definition range inside range. distinct non-trivial = (declaration form, block type kind, nesting depth, dependent-body outcome) of declarations with a target, and nested targets per step kind.",
		Assumptions: []string{"don't-care: relative order of same-address targets (C03), types of elements typed dynamic, everything inside dynamic blocks", "on broken files only the address rules of nested targets are monitored (parser recovery produces half blocks)"},
		Floor:       map[string]int{"quick": 15, "thorough": 20},
		CaseBudget:  60,
	}
}

func c09Params(tier string) (nGenQ, nGenT, broken int) {
	if tier == "thorough" {
		return 400, 6000, 12
	}
	return 400, 6000, 3
}

func (p c09) NumUnits(tier string, seed int64) int {
	q, t, _ := c09Params(tier)
	return len(diffSources(tier, seed, q, t))
}

type decl struct {
	form     string // block-as-reference | block-body-as-data | block-dep-body-as-data | block-as-type-of | block-unknown-nested | attr-as-reference | attr-as-expr-type
	addr     string
	scope    lang.ScopeId
	rng      hcl.Range
	defRng   hcl.Range
	typeless bool
	wantType cty.Type // NilType: not checked
	desc     string
}

type declModel struct {
	decls         []decl
	allowed       map[hcl.Range]bool // ranges a top-level target may legitimately carry
	allowedWithin []hcl.Range
	blocks        map[hcl.Range]*hclsyntax.Block
	parents       map[hcl.Range]*hclsyntax.Body // body holding the block of that range
	// value ranges of attributes whose constraint is a plain Reference{Address}: the
	// traversal written there is a declaration of its own (top level), and since the
	// constraint carries no type the attribute contributes nothing to an inferred body
	plainRefValues map[hcl.Range]string
}

func blockAddress(b *hclsyntax.Block, bs *schema.BlockSchema) (string, bool) {
	var parts []string
	for _, s := range bs.Address.Steps {
		switch st := s.(type) {
		case schema.StaticStep:
			parts = append(parts, st.Name)
		case schema.LabelStep:
			if int(st.Index) >= len(b.Labels) {
				return "", false
			}
			parts = append(parts, b.Labels[st.Index])
		case schema.AttrValueStep:
			if b.Body == nil {
				return "", false
			}
			a, ok := b.Body.Attributes[st.Name]
			if !ok {
				if st.IsOptional {
					continue
				}
				return "", false
			}
			v, _ := a.Expr.Value(nil)
			if !v.IsWhollyKnown() || v.IsNull() || v.Type() != cty.String {
				return "", false
			}
			parts = append(parts, v.AsString())
		default:
			return "", false
		}
	}
	if len(parts) == 0 {
		return "", false
	}
	return strings.Join(parts, "."), true
}

func (m *declModel) body(body *hclsyntax.Body, e *model.Eff, depth int) {
	for name, attr := range body.Attributes {
		as, how := e.AttrSchema(name)
		if how == "count" || how == "for_each" {
			m.allowed[body.Range()] = true
			m.allowed[attr.SrcRange] = true
			continue
		}
		if as != nil {
			if rc, ok := as.Constraint.(schema.Reference); ok && rc.Address != nil {
				if m.plainRefValues == nil {
					m.plainRefValues = map[hcl.Range]string{}
				}
				m.plainRefValues[attr.Expr.Range()] = name
			}
		}
		if as != nil && hasAddressableRef(as.Constraint, 0) {
			// a Reference constraint with an Address makes the written traversal itself a target
			m.allowedWithin = append(m.allowedWithin, attr.SrcRange)
		}
		if as == nil || as.Address == nil {
			continue
		}
		var parts []string
		ok := true
		for _, s := range as.Address.Steps {
			switch st := s.(type) {
			case schema.StaticStep:
				parts = append(parts, st.Name)
			case schema.AttrNameStep:
				parts = append(parts, name)
			default:
				ok = false
			}
		}
		if !ok || len(parts) == 0 {
			continue
		}
		addr := strings.Join(parts, ".")
		m.allowed[attr.SrcRange] = true
		if as.Address.AsReference {
			m.decls = append(m.decls, decl{form: "attr-as-reference", addr: addr, scope: as.Address.ScopeId, rng: attr.SrcRange, defRng: attr.NameRange, typeless: true, desc: fmt.Sprintf("attribute %s (%s)", name, how)})
		}
		if as.Address.AsExprType {
			d := decl{form: "attr-as-expr-type", addr: addr, scope: as.Address.ScopeId, rng: attr.SrcRange, defRng: attr.NameRange, desc: fmt.Sprintf("attribute %s (%s)", name, how)}
			// primitive literal of a primitive constraint: the type is known
			if lv, ok := attr.Expr.(*hclsyntax.LiteralValueExpr); ok {
				if t := consType(as.Constraint); t.IsPrimitiveType() && lv.Val.Type() == t {
					d.wantType = t
				}
			}
			// only constraints that yield typed targets are required
			switch as.Constraint.(type) {
			case schema.AnyExpression, schema.LiteralType:
				if t := consType(as.Constraint); t.IsPrimitiveType() {
					if lv, isLit := attr.Expr.(*hclsyntax.LiteralValueExpr); isLit {
						// (a literal of another primitive type does not conform: no requirement)
						if lv.Val.Type() == t {
							m.decls = append(m.decls, d)
						}
					} else if te, isT := attr.Expr.(*hclsyntax.TemplateExpr); isT && te.IsStringLiteral() && t == cty.String {
						d.wantType = cty.String
						m.decls = append(m.decls, d)
					}
				}
			}
		}
	}
	for _, b := range body.Blocks {
		var bs *schema.BlockSchema
		if e.Known {
			bs = e.Blocks[b.Type]
		}
		if b.Type == "dynamic" && bs == nil {
			m.allowedWithin = append(m.allowedWithin, b.Range()) // don't-care zone
			continue
		}
		if bs == nil {
			continue
		}
		m.blocks[b.Range()] = b
		m.parents[b.Range()] = body
		ne := model.Effective(b, bs, e)
		if bs.Address != nil {
			if addr, ok := blockAddress(b, bs); ok {
				m.allowed[b.Range()] = true
				base := decl{addr: addr, scope: bs.Address.ScopeId, rng: b.Range(), defRng: b.DefRange(), desc: fmt.Sprintf("block %s %v lookup=%s", b.Type, b.Labels, ne.Lookup)}
				if bs.Address.AsReference {
					d := base
					d.form, d.typeless = "block-as-reference", true
					m.decls = append(m.decls, d)
				}
				if bs.Address.BodyAsData {
					d := base
					d.form = "block-body-as-data"
					m.decls = append(m.decls, d)
				} else if bs.Address.DependentBodyAsData && ne.Lookup == model.Resolved {
					d := base
					d.form = "block-dep-body-as-data"
					m.decls = append(m.decls, d)
				}
				if bs.Address.AsTypeOf != nil {
					d := base
					d.form = "block-as-type-of"
					m.decls = append(m.decls, d)
				}
				if bs.Address.SupportUnknownNestedRefs {
					d := base
					d.form, d.wantType = "block-unknown-nested", cty.DynamicPseudoType
					m.decls = append(m.decls, d)
				}
			}
		}
		if ne.Dep != nil && len(ne.Dep.TargetableAs) > 0 {
			m.allowed[b.Range()] = true
		}
		if bs.Body != nil && len(bs.Body.TargetableAs) > 0 {
			m.allowed[b.Range()] = true
		}
		if b.Body != nil && (bs.Body != nil || ne.Dep != nil) {
			m.body(b.Body, ne, depth+1)
		}
	}
}

func hasAddressableRef(c schema.Constraint, depth int) bool {
	if depth > 6 {
		return false
	}
	switch t := c.(type) {
	case schema.Reference:
		return t.Address != nil
	case schema.List:
		return t.Elem != nil && hasAddressableRef(t.Elem, depth+1)
	case schema.Set:
		return t.Elem != nil && hasAddressableRef(t.Elem, depth+1)
	case schema.Map:
		return t.Elem != nil && hasAddressableRef(t.Elem, depth+1)
	case schema.Tuple:
		for _, e := range t.Elems {
			if hasAddressableRef(e, depth+1) {
				return true
			}
		}
	case schema.OneOf:
		for _, e := range t {
			if hasAddressableRef(e, depth+1) {
				return true
			}
		}
	case schema.Object:
		for _, a := range t.Attributes {
			if a.Constraint != nil && hasAddressableRef(a.Constraint, depth+1) {
				return true
			}
		}
	}
	return false
}

func rangeOr(r *hcl.Range) hcl.Range {
	if r == nil {
		return hcl.Range{}
	}
	return *r
}

func typeName(t cty.Type) string {
	if t == cty.NilType {
		return "(none)"
	}
	return t.FriendlyName()
}

func consType(c schema.Constraint) cty.Type {
	if ta, ok := c.(schema.TypeAwareConstraint); ok {
		if t, ok := ta.ConstraintType(); ok {
			return t
		}
	}
	return cty.NilType
}

func (p c09) RunUnit(idx int, tier string, seed int64, focus map[string]string, rep *runner.Reporter) {
	q, t, broken := c09Params(tier)
	srcs := diffSources(tier, seed, q, t)
	if idx >= len(srcs) {
		return
	}
	rc := srcs[idx].Recipe
	rnd := unitRand(seed, "C09", idx)
	base, err := rc.Make()
	if err != nil {
		return
	}
	first := true
	for sti, st := range diffStates(base, rnd, broken) {
		rep.Mark(idx, sti, -1, -1)
		if st.Mut.Kind == "none" {
			if first {
				p.check(rc, st, true, rep) // the whole (valid) workspace once
				first = false
			}
			continue
		}
		p.check(rc, st, false, rep)
	}
}

func (p c09) check(rc Recipe, st State, valid bool, rep *runner.Reporter) {
	ws, env, _ := buildState(rc, st)
	if env == nil {
		return
	}
	for _, path := range ws.Order {
		pc := env.PathCtx[path]
		if pc.Schema == nil {
			continue
		}
		if !valid && path != st.Path {
			continue
		}
		r := env.Run(core.Query{Kind: core.QCollectTargets, Path: path})
		if r.Panic != nil || r.Err != nil {
			continue
		}
		targets := r.Value.(reference.Targets)
		unitJSON := mustJSON(diffUnit{Recipe: rc, Path: path, File: st.File, Mut: st.Mut, Kind: core.QCollectTargets.String()})
		viol := func(sig, what string) {
			rep.Violation(&runner.Witness{Sig: sig, What: what, Unit: unitJSON, Files: filesOf(ws)})
		}
		m := &declModel{allowed: map[hcl.Range]bool{}, blocks: map[hcl.Range]*hclsyntax.Block{}, parents: map[hcl.Range]*hclsyntax.Body{}}
		native := true
		for _, file := range env.SortedFiles(path) {
			body, ok := pc.Files[file].Body.(*hclsyntax.Body)
			if !ok {
				native = false
				continue
			}
			m.body(body, model.EffRoot(pc.Schema), 0)
			if len(pc.Schema.TargetableAs) > 0 {
				m.allowed[body.Range()] = true // a targetable root body spans the body itself
			}
		}
		// ---- structural invariants on every tree
		var walk func(ts reference.Targets, parent *reference.Target, depth int)
		walk = func(ts reference.Targets, parent *reference.Target, depth int) {
			for i := range ts {
				t := ts[i]
				rep.Eval(1)
				// a traversal declared as target through Reference{Address} keeps its own
				// absolute address wherever it is written (type-less, no definition range)
				declaredByReference := t.DefRangePtr == nil && t.Type == cty.NilType && len(t.NestedTargets) == 0
				if parent != nil && declaredByReference && parent.DefRangePtr != nil && t.RangePtr != nil {
					if an, ok := m.plainRefValues[*t.RangePtr]; ok {
						viol("NESTED reference-declared-target-below-inferred-body", fmt.Sprintf("the traversal written as value of %q (plain Reference constraint, no type) is nested as %s below the body target %s: only type-aware attributes contribute to an inferred body", an, t.Addr, parent.Addr))
					}
				}
				if parent != nil && !declaredByReference {
					stepKind := "?"
					if len(t.Addr) > 0 {
						stepKind = fmt.Sprintf("%T", t.Addr[len(t.Addr)-1])
					}
					if len(t.Addr) != len(parent.Addr)+1 || !lang.Address(t.Addr[:len(parent.Addr)]).Equals(parent.Addr) {
						viol("NESTED address-not-parent-plus-one-step step="+stepKind, fmt.Sprintf("nested target %s is not its parent %s extended by exactly one step", t.Addr, parent.Addr))
					}
					if len(t.LocalAddr) > 0 && len(parent.LocalAddr) > 0 {
						if len(t.LocalAddr) != len(parent.LocalAddr)+1 || !lang.Address(t.LocalAddr[:len(parent.LocalAddr)]).Equals(parent.LocalAddr) {
							viol("NESTED local-address-not-parent-plus-one-step", fmt.Sprintf("nested target local address %s vs parent %s", t.LocalAddr, parent.LocalAddr))
						}
						// the block-local name of a nested declaration mirrors its absolute
						// address: both were extended by the same step
						if len(t.Addr) > 0 && t.LocalAddr[len(t.LocalAddr)-1].String() != t.Addr[len(t.Addr)-1].String() {
							viol("NESTED local-address-last-step-differs-from-address", fmt.Sprintf("nested target %s has the local address %s: the last steps differ", t.Addr, t.LocalAddr))
						}
					}
					rep.NonTrivial(fmt.Sprintf("nested|%s|d%d|valid=%t", stepKind, depth, valid))
					// (a block collection's own range only spans the run of adjacent
					// blocks starting at the first one: block elements are exempt)
					_, isBlockElem := m.blocks[rangeOr(t.RangePtr)]
					if valid && !isBlockElem && t.RangePtr != nil && parent.RangePtr != nil && !rangeWithin(*t.RangePtr, *parent.RangePtr) && !parent.RangePtr.Empty() {
						viol("NESTED range-outside-parent step="+stepKind, fmt.Sprintf("nested target %s range %s lies outside its parent's range %s", t.Addr, fmtRange(*t.RangePtr), fmtRange(*parent.RangePtr)))
					}
					// index steps of block collections denote the real block
					if valid && native && t.RangePtr != nil && t.DefRangePtr != nil && len(t.Addr) > 0 {
						if is, ok := t.Addr[len(t.Addr)-1].(lang.IndexStep); ok {
							p.checkIndexStep(m, t, is, viol)
						}
					}
				}
				if valid && t.RangePtr != nil && t.DefRangePtr != nil && !rangeWithin(*t.DefRangePtr, *t.RangePtr) {
					viol("TARGET definition-range-outside-range", fmt.Sprintf("target %s: definition range %s not inside range %s", t.Addr, fmtRange(*t.DefRangePtr), fmtRange(*t.RangePtr)))
				}
				walk(t.NestedTargets, &ts[i], depth+1)
			}
		}
		walk(targets, nil, 0)
		if !valid || !native {
			continue
		}
		// ---- completeness: every declaration has its target
		for _, d := range m.decls {
			found := false
			var cand []string
			for _, t := range targets {
				if t.RangePtr == nil || *t.RangePtr != d.rng || len(t.LocalAddr) > 0 && len(t.Addr) == 0 {
					continue
				}
				cand = append(cand, fmt.Sprintf("%s type=%s", t.Addr, typeName(t.Type)))
				if t.Addr.String() != d.addr {
					continue
				}
				if d.typeless != (t.Type == cty.NilType) {
					continue
				}
				if d.wantType != cty.NilType && !t.Type.Equals(d.wantType) {
					continue
				}
				if t.ScopeId != d.scope {
					viol("TARGET wrong-scope form="+d.form, fmt.Sprintf("%s: target %s has scope %q, schema says %q", d.desc, d.addr, t.ScopeId, d.scope))
				}
				if t.DefRangePtr == nil || *t.DefRangePtr != d.defRng {
					viol("TARGET wrong-definition-range form="+d.form, fmt.Sprintf("%s: target %s definition range is not the declaration's header %s", d.desc, d.addr, fmtRange(d.defRng)))
				}
				found = true
				break
			}
			if !found {
				viol("TARGET missing form="+d.form, fmt.Sprintf("%s: no target with address %s (typeless=%t, type %s) and the declaration's extent %s; targets at that extent: %v", d.desc, d.addr, d.typeless, typeName(d.wantType), fmtRange(d.rng), cand))
			} else {
				rep.NonTrivial(fmt.Sprintf("decl|%s|%s", d.form, strings.SplitN(d.desc, " ", 2)[0]))
			}
		}
		// ---- soundness: nothing for items unknown to the schema
		for _, t := range targets {
			if t.RangePtr == nil {
				continue
			}
			ok := m.allowed[*t.RangePtr]
			for _, w := range m.allowedWithin {
				if rangeWithin(*t.RangePtr, w) {
					ok = true
				}
			}
			if !ok {
				viol("TARGET for-undeclared-item", fmt.Sprintf("target %s (local %s) with range %s does not belong to any addressable block or attribute of the schema", t.Addr, t.LocalAddr, fmtRange(*t.RangePtr)))
			}
		}
		rep.Count("declarations_expected", int64(len(m.decls)))
		rep.Count("top_level_targets", int64(len(targets)))
		if rep.NumSamples() < 4 && len(m.decls) > 2 {
			var ex []string
			for i, d := range m.decls {
				if i < 5 {
					ex = append(ex, fmt.Sprintf("%s %s @%s", d.form, d.addr, fmtRange(d.rng)))
				}
			}
			rep.Sample(map[string]interface{}{"source": rc.String(), "path": path, "declarations": len(m.decls), "top_level_targets": len(targets), "first": ex})
		}
	}
}

func (p c09) checkIndexStep(m *declModel, t reference.Target, is lang.IndexStep, viol func(sig, what string)) {
	blk, ok := m.blocks[*t.RangePtr]
	if !ok {
		// ranges of elements of written values are not blocks; only block
		// collections carry a definition range equal to a block header
		for _, b := range m.blocks {
			if b.DefRange() == *t.DefRangePtr {
				class := "element-range-not-the-blocks-extent"
				// the narrow, known shape: the FIRST element starts at its own block and
				// extends over the following sibling blocks of the same type
				if t.RangePtr.Start == b.Range().Start && t.RangePtr.End.Byte > b.Range().End.Byte && isFirstOfType(m.parents[b.Range()], b) && endsAtSibling(m.parents[b.Range()], b, t.RangePtr.End) {
					class = "first-element-range-extends-over-sibling-blocks"
				}
				viol("NESTED "+class, fmt.Sprintf("nested target %s has the header of block %s %v as definition range but %s as range, the block's extent is %s", t.Addr, b.Type, b.Labels, fmtRange(*t.RangePtr), fmtRange(b.Range())))
				return
			}
		}
		return
	}
	body := m.parents[blk.Range()]
	if body == nil {
		return
	}
	switch {
	case is.Key.Type() == cty.Number:
		want, _ := is.Key.AsBigFloat().Int64()
		n := int64(0)
		for _, sib := range body.Blocks {
			if sib == blk {
				break
			}
			if sib.Type == blk.Type {
				n++
			}
		}
		if n != want {
			viol("NESTED list-index-not-source-order", fmt.Sprintf("nested target %s points at the block %s at source position %d", t.Addr, blk.Type, n))
		}
	case is.Key.Type() == cty.String:
		if len(blk.Labels) == 0 || blk.Labels[0] != is.Key.AsString() {
			viol("NESTED map-key-not-written-key", fmt.Sprintf("nested target %s points at block %s %v", t.Addr, blk.Type, blk.Labels))
		}
	}
}

func isFirstOfType(body *hclsyntax.Body, b *hclsyntax.Block) bool {
	if body == nil {
		return false
	}
	for _, sib := range body.Blocks {
		if sib.Type == b.Type {
			return sib == b
		}
	}
	return false
}

func endsAtSibling(body *hclsyntax.Body, b *hclsyntax.Block, end hcl.Pos) bool {
	if body == nil {
		return false
	}
	for _, sib := range body.Blocks {
		if sib.Type == b.Type && sib != b && sib.Range().End == end {
			return true
		}
	}
	return false
}

func (p c09) Replay(w *runner.Witness, rep *runner.Reporter) error {
	var u diffUnit
	if err := json.Unmarshal(w.Unit, &u); err != nil {
		return err
	}
	p.check(u.Recipe, State{u.Path, u.File, u.Mut}, u.Mut.Kind == "none" || u.Mut.Kind == "", rep)
	return nil
}

func init() { Register(c09{}) }
