package props

import (
	"encoding/json"
	"fmt"
	"strings"

	"github.com/hashicorp/hcl-lang/lang"

	"verifharness/internal/core"
	"verifharness/internal/runner"
)

// crlfTwinPart is a metamorphic part shared by C12 (hover) and C13 (tokens): what
// the schema says about an element does not depend on how the lines of the file
// end. Every native base file without heredocs is rendered with CRLF line
// endings; the hover content at every cursor / the semantic tokens (type,
// modifiers, extent mapped back byte by byte) must be the same for both.
type crlfTwinPart struct{ tokens bool }

func (p crlfTwinPart) ID() string {
	if p.tokens {
		return "C13-line-endings"
	}
	return "C12-line-endings"
}
func (crlfTwinPart) Meta() Meta { return Meta{} }
func (crlfTwinPart) NumUnits(tier string, seed int64) int {
	return len(diffSources(tier, seed, 40, 400))
}

func (p crlfTwinPart) RunUnit(idx int, tier string, seed int64, focus map[string]string, rep *runner.Reporter) {
	srcs := diffSources(tier, seed, 40, 400)
	if idx >= len(srcs) {
		return
	}
	p.runRecipe(idx, srcs[idx].Recipe, rep)
}

func (p crlfTwinPart) Replay(w *runner.Witness, rep *runner.Reporter) error {
	var u CaseSpec
	if err := json.Unmarshal(w.Unit, &u); err != nil {
		return err
	}
	p.runRecipe(0, u.Recipe, rep)
	return nil
}

func (p crlfTwinPart) runRecipe(idx int, rc Recipe, rep *runner.Reporter) {
	base, err := rc.Make()
	if err != nil {
		return
	}
	for _, st := range diffStates(base, nil, 0) {
		if core.IsJSON(st.File) {
			continue
		}
		text := base.Paths[st.Path].Files[st.File]
		if strings.Contains(text, "\r") || strings.Contains(text, "<<") || len(text) == 0 {
			continue
		}
		twin := strings.ReplaceAll(text, "\n", "\r\n")
		mk := func(t string) (*core.Env, *core.Workspace) {
			ws, err := rc.Make()
			if err != nil {
				return nil, nil
			}
			ws.Paths[st.Path].Files[st.File] = t
			return ws.Build(true), ws
		}
		envA, wsA := mk(text)
		envB, wsB := mk(twin)
		if envA == nil || envB == nil || wsA.FailPaths[st.Path] {
			continue
		}
		tabA, tabB := envA.Tables[st.Path][st.File], envB.Tables[st.Path][st.File]
		if tabA == nil || tabB == nil {
			continue
		}
		// byte of the CRLF text -> byte of the LF text
		back := make([]int, len(twin)+1)
		for i, j := 0, 0; i <= len(twin); i++ {
			back[i] = j
			if i < len(twin) && !(twin[i] == '\r') {
				j++
			}
		}
		unit := func(kind string, b int) []byte {
			return mustJSON(CaseSpec{Recipe: rc, Path: st.Path, File: st.File, Mut: Mutation{Kind: "text", Text: twin}, Kind: kind, Byte: b, Arg: "crlf"})
		}
		if p.tokens {
			q := core.Query{Kind: core.QSemTokens, Path: st.Path, File: st.File}
			ra, rb := envA.Run(q), envB.Run(q)
			rep.Eval(2)
			if ra.Panic != nil || rb.Panic != nil {
				continue
			}
			ta, _ := ra.Value.([]lang.SemanticToken)
			tb, _ := rb.Value.([]lang.SemanticToken)
			line := func(t lang.SemanticToken, m []int) string {
				s, e := t.Range.Start.Byte, t.Range.End.Byte
				if m != nil && s >= 0 && e < len(m) && s <= e {
					s, e = m[s], m[e]
				}
				return fmt.Sprintf("%d-%d %s [%s]", s, e, t.Type, modsString(t.Modifiers))
			}
			var la, lb []string
			for _, t := range ta {
				la = append(la, line(t, nil))
			}
			for _, t := range tb {
				lb = append(lb, line(t, back))
			}
			rep.Count("crlf_twin_token_files", 1)
			if len(la) > 0 {
				rep.NonTrivial(fmt.Sprintf("crlf-tokens|%s|%s", rc, st.File))
			}
			if a, b := strings.Join(la, "\n"), strings.Join(lb, "\n"); a != b {
				rep.Violation(&runner.Witness{Sig: "CRLF-TWIN tokens differ with the line ending",
					What: "the semantic tokens of a file differ (type, modifiers or extent mapped back byte by byte) when its lines end in CRLF",
					Unit: unit(q.Kind.String(), 0), Files: filesOf(wsB), Query: q.String(), Expected: "LF:\n" + trunc(firstDiffLines(la, lb, true), 1200), Observed: "CRLF:\n" + trunc(firstDiffLines(la, lb, false), 1200)})
			}
			continue
		}
		nl, next := 0, 0
		for _, off := range tabA.Offsets() {
			for next < off {
				if text[next] == '\n' {
					nl++
				}
				next++
			}
			posA, ok1 := tabA.At(off)
			posB, ok2 := tabB.At(off + nl)
			if !ok1 || !ok2 {
				continue
			}
			rep.Mark(idx, off, -7, -1)
			qa := core.Query{Kind: core.QHover, Path: st.Path, File: st.File, Pos: posA}
			qb := core.Query{Kind: core.QHover, Path: st.Path, File: st.File, Pos: posB}
			ra, rb := envA.Run(qa), envB.Run(qb)
			rep.Eval(2)
			rep.Count("crlf_twin_hover_cursors", 1)
			if ra.Panic != nil || rb.Panic != nil {
				continue
			}
			ha, _ := ra.Value.(*lang.HoverData)
			hb, _ := rb.Value.(*lang.HoverData)
			ca, cb := "<none>", "<none>"
			if ha != nil {
				ca = ha.Content.Value
				rep.NonTrivial(fmt.Sprintf("crlf-hover|%s|%s|%s", rc, st.File, firstWord(ca)))
			}
			if hb != nil {
				cb = hb.Content.Value
			}
			// the content of a multi-line string literal legitimately carries its line endings
			if ca != cb && strings.ReplaceAll(cb, "\r", "") != ca && strings.ReplaceAll(cb, "\\r", "") != ca {
				rep.Violation(&runner.Witness{Sig: "CRLF-TWIN hover differs with the line ending",
					What: "the hover at the same cursor of the same file differs when its lines end in CRLF",
					Unit: unit(qb.Kind.String(), off+nl), Files: filesOf(wsB), Query: qb.String(), Expected: "LF: " + trunc(ca, 400), Observed: "CRLF: " + trunc(cb, 400)})
			}
		}
	}
}

// firstDiffLines shows the lines around the first difference of two lists.
func firstDiffLines(a, b []string, first bool) string {
	i := 0
	for i < len(a) && i < len(b) && a[i] == b[i] {
		i++
	}
	l := b
	if first {
		l = a
	}
	lo, hi := i-2, i+4
	if lo < 0 {
		lo = 0
	}
	if hi > len(l) {
		hi = len(l)
	}
	if lo > hi {
		lo = hi
	}
	return strings.Join(l[lo:hi], "\n")
}
