package props

import (
	"encoding/json"
	"fmt"
	"sort"
	"strings"
	"unicode/utf8"

	"github.com/hashicorp/hcl-lang/lang"
	"github.com/hashicorp/hcl/v2"
	"github.com/hashicorp/hcl/v2/hclsyntax"

	"verifharness/internal/core"
	"verifharness/internal/model"
	"verifharness/internal/runner"
)

// C07: body and label completion offers exactly what the effective schema
// still allows.

type c07 struct{}

func (c07) ID() string { return "C07" }
func (c07) Meta() Meta {
	return Meta{
		Level:       "exploration",
		Rule:        "reference-model monitor: on fixtures and generated configurations (base files plus 'typing replays' that insert every prefix of a seeded attribute/block name on a fresh line of every body) every cursor is classified from the AST with the model's own effective schema; in the decided zones (inside/at the end of a recognised attribute name or block type; body white space with blank/newline/brace on both sides; end of a lone identifier directly followed by a newline; inside a completable label) the candidate labels must equal M-body (attributes/blocks of static+dependent body with the typed prefix that can still be declared, count/for_each where enabled, sorted, no duplicates; dependent-body label values for labels); elsewhere only soundness (every candidate declarable, sorted, unique). Accepting a candidate (snippet applied with placeholder defaults) must not make ValidateFile report a new unexpected attribute/block or too-many-blocks error. distinct non-trivial = decided-zone cursor cases with a non-empty expected list, keyed by (source, zone, lookup outcome, prefix length class, body path).",
		Assumptions: []string{"don't-care inside decided zones: the 'dynamic' candidate wherever a DynamicBlocks extension is on up the chain, AnyAttribute's placeholder candidate 'name', the attribute/block whose own name holds the cursor, truncated lists (soundness only)"},
		Floor:       map[string]int{"quick": 100, "thorough": 500},
		CaseBudget:  60,
	}
}

func c07Params(tier string) (nGenQ, nGenT, replays int) {
	if tier == "thorough" {
		return 120, 1500, 12
	}
	return 120, 1500, 3
}

func (p c07) NumUnits(tier string, seed int64) int {
	q, t, _ := c07Params(tier)
	return len(diffSources(tier, seed, q, t))
}

type bodySite struct {
	insertAt int // byte offset right after the opening brace (or 0 for root)
	indent   string
	eff      *model.Eff
}

// bodySites lists every body with a schema: where a fresh line can be typed.
func bodySites(body *hclsyntax.Body, e *model.Eff, depth int, root bool, out *[]bodySite) {
	if root {
		*out = append(*out, bodySite{insertAt: 0, indent: "", eff: e})
	}
	for _, b := range body.Blocks {
		if !e.Known || b.Type == "dynamic" {
			continue
		}
		bs := e.Blocks[b.Type]
		if bs == nil || b.Body == nil || b.OpenBraceRange.End.Byte == 0 {
			continue
		}
		if bs.Body == nil && len(bs.DependentBody) == 0 {
			continue
		}
		if b.OpenBraceRange.End.Line == b.CloseBraceRange.Start.Line {
			continue
		}
		ne := model.Effective(b, bs, e)
		*out = append(*out, bodySite{insertAt: b.OpenBraceRange.End.Byte, indent: strings.Repeat("  ", depth+1), eff: ne})
		bodySites(b.Body, ne, depth+1, false, out)
	}
}

func (p c07) RunUnit(idx int, tier string, seed int64, focus map[string]string, rep *runner.Reporter) {
	q, t, replays := c07Params(tier)
	srcs := diffSources(tier, seed, q, t)
	if idx >= len(srcs) {
		return
	}
	rc := srcs[idx].Recipe
	rnd := unitRand(seed, "C07", idx)
	base, err := rc.Make()
	if err != nil {
		return
	}
	for _, st := range diffStates(base, rnd, 0) {
		if core.IsJSON(st.File) {
			continue
		}
		// base file: every cursor
		p.checkState(idx, rc, st, -1, rep)
		// typing replays
		_, env, _ := buildState(rc, st)
		if env == nil {
			continue
		}
		pc := env.PathCtx[st.Path]
		body, ok := pc.Files[st.File].Body.(*hclsyntax.Body)
		if !ok || pc.Schema == nil {
			continue
		}
		var sites []bodySite
		bodySites(body, model.EffRoot(pc.Schema), 0, true, &sites)
		src := env.WS.Paths[st.Path].Files[st.File]
		for r := 0; r < replays && len(sites) > 0; r++ {
			site := sites[rnd.Intn(len(sites))]
			// pick a name the body could declare (or a random word)
			var names []string
			for n := range site.eff.Attrs {
				names = append(names, n)
			}
			for n := range site.eff.Blocks {
				names = append(names, n)
			}
			names = append(names, "count", "for_each", "dynamic", "zzz")
			sort.Strings(names)
			name := names[rnd.Intn(len(names))]
			for l := 0; l <= len(name); l++ {
				if l < len(name) && !utf8.RuneStart(name[l]) {
					continue
				}
				var text string
				var cur int
				if site.insertAt == 0 {
					text = name[:l] + "\n" + src
					cur = l
				} else {
					ins := "\n" + site.indent + name[:l]
					text = src[:site.insertAt] + ins + src[site.insertAt:]
					cur = site.insertAt + len(ins)
				}
				st2 := State{Path: st.Path, File: st.File, Mut: Mutation{Kind: "insert", A: site.insertAt, Text: text}}
				_ = st2
				p.checkText(idx, rc, st, text, cur, rep)
			}
		}
	}
}

// checkState checks every cursor of a file state (only==-1) or one cursor.
func (p c07) checkState(unit int, rc Recipe, st State, only int, rep *runner.Reporter) {
	ws, err := rc.Make()
	if err != nil {
		return
	}
	spec := ws.Paths[st.Path]
	if spec == nil {
		return
	}
	text, _ := st.Mut.Apply(spec.Files[st.File])
	p.checkText(unit, rc, st, text, only, rep)
}

func (p c07) checkText(unit int, rc Recipe, st State, text string, only int, rep *runner.Reporter) {
	ws, err := rc.Make()
	if err != nil {
		return
	}
	ws.Paths[st.Path].Files[st.File] = text
	env := ws.Build(true)
	pc := env.PathCtx[st.Path]
	f := pc.Files[st.File]
	if f == nil || pc.Schema == nil {
		return
	}
	body, ok := f.Body.(*hclsyntax.Body)
	if !ok {
		return
	}
	tab := env.Tables[st.Path][st.File]
	src := []byte(text)
	root := model.EffRoot(pc.Schema)
	// The typed prefix is recovered from the token stream; with lexer errors
	// anywhere in the file there is no well-defined prefix: soundness only.
	lexToks, lexDiags := hclsyntax.LexConfig(src, st.File, hcl.InitialPos)
	lexErrors := lexDiags.HasErrors()
	var comments []hcl.Range
	for _, t := range lexToks {
		if t.Type == hclsyntax.TokenComment {
			comments = append(comments, t.Range)
		}
	}
	var baseDiags map[string]int
	offs := tab.Offsets()
	if only >= 0 {
		offs = []int{only}
	}
	for _, off := range offs {
		pos, ok := tab.At(off)
		if !ok {
			continue
		}
		cls := model.Classify(src, body, root, off, "", false, false)
		if cls.Kind == "other" || cls.Kind == "value" || cls.InDyn || inComment(comments, off) {
			continue
		}
		if lexErrors {
			if cls.Kind == "label" {
				continue
			}
			cls.Kind = "soundness-only"
		}
		rep.Mark(unit, off, -1, -1)
		q := core.Query{Kind: core.QCompletion, Path: st.Path, File: st.File, Pos: pos}
		r := env.Run(q)
		rep.Eval(1)
		if r.Panic != nil || r.Err != nil {
			continue
		}
		cands, ok := r.Value.(lang.Candidates)
		if !ok {
			continue
		}
		var got []string
		for _, c := range cands.List {
			got = append(got, c.Label)
		}
		unitJSON := mustJSON(CaseSpec{Recipe: rc, Path: st.Path, File: st.File, Mut: Mutation{Kind: "text", Text: text}, Kind: q.Kind.String(), Byte: off})
		viol := func(sig, what, exp string) {
			rep.Violation(&runner.Witness{Sig: sig, What: what, Unit: unitJSON, Files: filesOf(ws), Query: q.String(), Expected: exp, Observed: strings.Join(got, ", ")})
		}
		truncated := len(cands.List) >= 100
		switch cls.Kind {
		case "dyn-label":
			// the label of a dynamic block: exactly the block types the synthesised dynamic
			// block is registered for in this body, with the typed prefix
			lr := cls.Block.LabelRanges[0]
			if off <= lr.Start.Byte || src[lr.Start.Byte] != '"' {
				continue
			}
			prefix := string(src[lr.Start.Byte+1 : off])
			if strings.ContainsAny(prefix, "\"\n\\$%") {
				continue
			}
			var want []string
			for t := range cls.Eff.DynTypes {
				if strings.HasPrefix(t, prefix) {
					want = append(want, t)
				}
			}
			sort.Strings(want)
			rep.Count("dynamic_label_cursors", 1)
			if !truncated && strings.Join(got, ",") != strings.Join(want, ",") {
				viol(fmt.Sprintf("DYNAMIC-LABEL-CANDIDATES %s", listDiffClass(got, want, nil)), fmt.Sprintf("label of a dynamic block with typed prefix %q: candidates differ from the block types of the enclosing body's effective schema", prefix), strings.Join(want, ", "))
			}
			if len(want) > 0 {
				rep.NonTrivial(fmt.Sprintf("%s|dynamic-label|%d", rc, len(prefix)))
			}
			continue
		case "label":
			prefixStart := cls.Block.LabelRanges[cls.Label].Start.Byte + 1 // after the quote
			if off < prefixStart {
				continue
			}
			prefix := string(src[prefixStart:off])
			if strings.ContainsAny(prefix, "\"\n") {
				continue
			}
			want := model.LabelCandidates(cls, prefix)
			if cls.BS.Type == 0 && len(cls.BS.Labels) == 1 && cls.Block.Type == "dynamic" {
				continue
			}
			if !truncated && strings.Join(got, ",") != strings.Join(want, ",") {
				viol(fmt.Sprintf("LABEL-CANDIDATES %s", listDiffClass(got, want, nil)), fmt.Sprintf("label #%d of block %s with typed prefix %q: candidates differ from the dependent-body label values", cls.Label, cls.Block.Type, prefix), strings.Join(want, ", "))
			}
			if len(want) > 0 {
				rep.NonTrivial(fmt.Sprintf("%s|label|%s|%d", rc, cls.Block.Type, len(prefix)))
			}
			continue
		}
		// body positions
		if !cls.Eff.Known {
			continue
		}
		ex := model.BodyCandidates(cls)
		// the item whose own name holds the cursor is a don't-care
		if cls.Attr != nil {
			ex.Optional[cls.Attr.Name] = true
		}
		if cls.Block != nil {
			ex.Optional[cls.Block.Type] = true
		}
		must := []string{}
		for _, m := range ex.Must {
			if !ex.Optional[m] {
				must = append(must, m)
			}
		}
		zone := cls.Kind
		// soundness: every candidate is declarable in the effective schema, unique, sorted
		seen := map[string]bool{}
		allowed := map[string]bool{}
		for _, m := range ex.Must {
			allowed[m] = true
		}
		for o := range ex.Optional {
			allowed[o] = true
		}
		if zone == "soundness-only" {
			// typed prefix undefined: allow anything declarable regardless of prefix
			pc2 := cls
			pc2.Prefix = ""
			for _, m := range model.BodyCandidates(pc2).Must {
				allowed[m] = true
			}
			if cls.Eff.DynAncestor {
				allowed["dynamic"] = true
			}
			if cls.Eff.Any != nil {
				allowed["name"] = true
			}
		}
		for i, g := range got {
			if seen[g] {
				viol("BODY-CANDIDATES duplicate zone="+zone, fmt.Sprintf("candidate %q is offered twice", g), "")
			}
			seen[g] = true
			if !allowed[g] {
				viol(fmt.Sprintf("BODY-CANDIDATES not-declarable zone=%s lookup=%s what=%s", zone, cls.Eff.Lookup, candClass(g, cls.Eff)), fmt.Sprintf("candidate %q (typed prefix %q) cannot be declared here according to the effective schema", g, cls.Prefix), strings.Join(must, ", "))
			}
			if i > 0 && got[i-1] > g {
				viol("BODY-CANDIDATES unsorted zone="+zone, fmt.Sprintf("candidates are not sorted by name: %q before %q", got[i-1], g), "")
			}
		}
		if zone != "soundness-only" && !truncated {
			for _, m := range must {
				if !seen[m] {
					viol(fmt.Sprintf("BODY-CANDIDATES missing zone=%s lookup=%s what=%s", zone, cls.Eff.Lookup, candClass(m, cls.Eff)), fmt.Sprintf("%q can still be declared here (typed prefix %q) but is not offered", m, cls.Prefix), strings.Join(must, ", "))
				}
			}
			if len(must) > 0 {
				pl := "0"
				if len(cls.Prefix) > 0 {
					pl = "n"
				}
				rep.NonTrivial(fmt.Sprintf("%s|%s|%s|%s|%s", rc, zone, cls.Eff.Lookup, pl, cls.Path))
				if rep.NumSamples() < 6 {
					rep.Sample(map[string]interface{}{"source": rc.String(), "zone": zone, "typed_prefix": cls.Prefix, "body": cls.Path, "lookup": cls.Eff.Lookup.String(), "expected": must, "offered": got})
				}
			}
		}
		// acceptance round trip (sampled: first and last candidate)
		restOfLineEmpty := (off >= len(src) || src[off] == '\n' || src[off] == '\r') && lineIsBlankBefore(src, off-len(cls.Prefix))
		if len(cands.List) > 0 && (zone == "body-ws" || zone == "ident-end") && restOfLineEmpty {
			if baseDiags == nil {
				baseDiags = surplusDiags(env, st)
			}
			// first and last candidate, plus every block type that a dynamic block of the
			// same body generates as well (static and generated blocks share the limits)
			picks := []int{0, len(cands.List) - 1}
			if cls.Body != nil {
				for _, b := range cls.Body.Blocks {
					if b.Type == "dynamic" && len(b.Labels) > 0 {
						for ci, c := range cands.List {
							if c.Label == b.Labels[0] && ci != 0 && ci != len(cands.List)-1 {
								picks = append(picks, ci)
							}
						}
					}
				}
			}
			for _, ci := range picks {
				c := cands.List[ci]
				if c.Label == "dynamic" || c.Label == "name" {
					continue
				}
				newText, ok := applySnippet(text, c.TextEdit)
				if !ok {
					continue
				}
				ws2, _ := rc.Make()
				ws2.Paths[st.Path].Files[st.File] = newText
				env2 := ws2.Build(false)
				after := surplusDiags(env2, st)
				rep.Eval(1)
				for k, n := range after {
					// the accepted item itself must not be unexpected / surplus (accepting a
					// dependency-key attribute may legitimately change the schema of its siblings)
					if n > baseDiags[k] && strings.HasSuffix(k, "|"+c.Label) {
						rule := strings.SplitN(k, "|", 2)[0]
						rep.Violation(&runner.Witness{Sig: "ACCEPT introduces " + rule + " kind=" + candKind(c.Kind), What: fmt.Sprintf("accepting candidate %q makes validation report a new %s", c.Label, k),
							Unit: unitJSON, Files: filesOf(ws), Query: q.String(), Observed: trunc(newText, 3000)})
					}
				}
				rep.Count("acceptance_round_trips", 1)
			}
		}
	}
}

// inComment: the cursor lies inside (or at the end of the text of) a comment.
func inComment(comments []hcl.Range, off int) bool {
	for _, c := range comments {
		if off > c.Start.Byte && off < c.End.Byte {
			return true
		}
	}
	return false
}

// lineIsBlankBefore: only blanks lie between the start of the line and off.
func lineIsBlankBefore(src []byte, off int) bool {
	for off > 0 && (src[off-1] == ' ' || src[off-1] == '\t') {
		off--
	}
	return off == 0 || src[off-1] == '\n'
}

func candClass(name string, e *model.Eff) string {
	switch {
	case name == "count" || name == "for_each":
		return "extension-attribute"
	case name == "dynamic":
		return "dynamic"
	}
	if _, ok := e.Attrs[name]; ok {
		if e.Dep != nil {
			if _, ok := e.Dep.Attributes[name]; ok {
				return "dependent-attribute"
			}
		}
		return "attribute"
	}
	if _, ok := e.Blocks[name]; ok {
		return "block"
	}
	return "unknown-name"
}

func listDiffClass(got, want []string, optional map[string]bool) string {
	g, w := map[string]bool{}, map[string]bool{}
	for _, x := range got {
		g[x] = true
	}
	for _, x := range want {
		w[x] = true
	}
	missing, extra := 0, 0
	for x := range w {
		if !g[x] {
			missing++
		}
	}
	for x := range g {
		if !w[x] && !optional[x] {
			extra++
		}
	}
	switch {
	case missing > 0 && extra > 0:
		return "missing+extra"
	case missing > 0:
		return "missing"
	case extra > 0:
		return "extra"
	}
	return "order-or-duplicates"
}

// surplusDiags counts the unexpected / too-many diagnostics of a file.
func surplusDiags(env *core.Env, st State) map[string]int {
	out := map[string]int{}
	r := env.Run(core.Query{Kind: core.QValidateFile, Path: st.Path, File: st.File})
	diags, _ := r.Value.(hcl.Diagnostics)
	for _, d := range diags {
		_, rule, item := model.RuleOf(d)
		if rule == "unexpected-attr" || rule == "unexpected-block" || rule == "too-many-blocks" {
			out[rule+"|"+item]++
		}
	}
	return out
}

// applySnippet applies a text edit in snippet form with every placeholder
// replaced by its default text.
func applySnippet(text string, te lang.TextEdit) (string, bool) {
	s, e := te.Range.Start.Byte, te.Range.End.Byte
	if s < 0 || e < s || e > len(text) {
		return "", false
	}
	return text[:s] + expandSnippet(te.Snippet) + text[e:], true
}

// expandSnippet replaces ${N:default} by default and ${N} / $N by nothing.
func expandSnippet(sn string) string {
	var sb strings.Builder
	for i := 0; i < len(sn); i++ {
		if sn[i] == '$' && i+1 < len(sn) && sn[i+1] == '{' {
			j := i + 2
			for j < len(sn) && sn[j] >= '0' && sn[j] <= '9' {
				j++
			}
			if j > i+2 && j < len(sn) && (sn[j] == '}' || sn[j] == ':') {
				if sn[j] == '}' {
					i = j
					continue
				}
				// find matching close brace (placeholders may nest)
				depth, k := 1, j+1
				for k < len(sn) && depth > 0 {
					if sn[k] == '{' && k > 0 && sn[k-1] == '$' {
						depth++
					} else if sn[k] == '}' {
						depth--
					}
					k++
				}
				sb.WriteString(expandSnippet(sn[j+1 : k-1]))
				i = k - 1
				continue
			}
		}
		if sn[i] == '$' && i+1 < len(sn) && sn[i+1] >= '0' && sn[i+1] <= '9' {
			j := i + 1
			for j < len(sn) && sn[j] >= '0' && sn[j] <= '9' {
				j++
			}
			i = j - 1
			continue
		}
		sb.WriteByte(sn[i])
	}
	return sb.String()
}

func (p c07) Replay(w *runner.Witness, rep *runner.Reporter) error {
	var spec CaseSpec
	if err := json.Unmarshal(w.Unit, &spec); err != nil {
		return err
	}
	p.checkText(0, spec.Recipe, State{Path: spec.Path, File: spec.File}, spec.Mut.Text, spec.Byte, rep)
	return nil
}

func init() { Register(c07{}) }
