package props

import (
	"fmt"
	"sort"
	"strings"

	"github.com/hashicorp/hcl/v2"
	"github.com/hashicorp/hcl/v2/hclsyntax"

	"verifharness/internal/core"
	"verifharness/internal/model"
	"verifharness/internal/runner"
)

// C15: validation reports exactly the schema violations present in the file.

type c15 struct{}

func (c15) ID() string { return "C15" }
func (c15) Meta() Meta {
	return Meta{
		Level:       "exploration",
		Rule:        "reference-model monitor: for fixtures and generated schema/configuration pairs (conforming configurations plus injected unknown attributes/blocks, surplus/missing labels, too many blocks, missing required attributes, deprecated items; base files, prefixes and token edits) ValidateFile with the stock validators is compared as a multiset on (severity, rule, offending item) with M-valid, an independent implementation of the eight rules over the model's effective schema (static + dependent body by the model's own key lookup, 'nothing unexpected below an unresolved dependent body', a dynamic block satisfies the minimum where the merged body's extensions have DynamicBlocks), and every subject range must lie on the offending item. Diagnostics inside the content of dynamic blocks are a declared don't-care zone, but whether the dynamic block itself is expected is decided exactly: the model follows the DynamicBlocks extension through the merges (own flag of the static body or handed down by the enclosing merged body; block types registered with the synthesised dynamic block; content = static body of the type) - a dynamic block known to its body must not be reported as unexpected, one unknown to it must be (outside unknown-schema zones, on unmutated files). distinct non-trivial = file states with >= 2 distinct rule kinds firing, keyed by (source, state).",
		Assumptions: []string{"message wording and order are not compared", "subject extent: only 'lies within the offending item (or its enclosing block for body-level rules)' is required"},
		Floor:       map[string]int{"quick": 60, "thorough": 300},
		CaseBudget:  60,
	}
}

func c15Params(tier string) (nGenQ, nGenT, broken int) {
	if tier == "thorough" {
		return 400, 5000, 12
	}
	return 400, 5000, 6
}

func (p c15) NumUnits(tier string, seed int64) int {
	q, t, _ := c15Params(tier)
	return len(diffSources(tier, seed, q, t))
}

func (p c15) RunUnit(idx int, tier string, seed int64, focus map[string]string, rep *runner.Reporter) {
	q, t, broken := c15Params(tier)
	srcs := diffSources(tier, seed, q, t)
	if idx >= len(srcs) {
		return
	}
	rc := srcs[idx].Recipe
	rnd := unitRand(seed, "C15", idx)
	base, err := rc.Make()
	if err != nil {
		return
	}
	for sti, st := range diffStates(base, rnd, broken) {
		if core.IsJSON(st.File) {
			continue
		}
		rep.Mark(idx, sti, -1, -1)
		p.check(rc, st, rep)
	}
}

// dynamicRanges lists the ranges of all blocks of type "dynamic".
func dynamicRanges(body *hclsyntax.Body) []hcl.Range {
	var out []hcl.Range
	for _, b := range body.Blocks {
		if b.Type == "dynamic" {
			out = append(out, b.Range())
			continue
		}
		if b.Body != nil {
			out = append(out, dynamicRanges(b.Body)...)
		}
	}
	return out
}

func within(inner, outer hcl.Range) bool {
	return inner.Filename == outer.Filename && inner.Start.Byte >= outer.Start.Byte && inner.End.Byte <= outer.End.Byte
}

func (p c15) check(rc Recipe, st State, rep *runner.Reporter) {
	ws, env, _ := buildState(rc, st)
	if env == nil {
		return
	}
	pc := env.PathCtx[st.Path]
	f := pc.Files[st.File]
	if f == nil || pc.Schema == nil {
		return
	}
	body, ok := f.Body.(*hclsyntax.Body)
	if !ok {
		return
	}
	q := core.Query{Kind: core.QValidateFile, Path: st.Path, File: st.File}
	r := env.Run(q)
	rep.Eval(1)
	if r.Panic != nil || r.Err != nil {
		return
	}
	diags := r.Value.(hcl.Diagnostics)
	fileRange := hcl.Range{Filename: st.File, Start: hcl.InitialPos, End: hcl.Pos{Byte: len(f.Bytes) + 1}}
	want := model.Validate(body, model.EffRoot(pc.Schema), false, false, fileRange)
	dyn := dynamicRanges(body)
	dynKnown, dynUnkZone := dynamicBlocksKnown(body, pc.Schema)
	for _, known := range dynKnown {
		if known {
			rep.Count("dynamic_blocks_known_to_their_body", 1)
		} else {
			rep.Count("dynamic_blocks_unknown_to_their_body", 1)
		}
	}
	inDyn := func(r *hcl.Range) bool {
		if r == nil {
			return false
		}
		for _, d := range dyn {
			if within(*r, d) {
				return true
			}
		}
		return false
	}
	type item = diagItem
	var wantItems []item
	for _, d := range want {
		if d.InDyn {
			continue
		}
		// model diags on a dynamic block itself (unexpected) are don't-care too
		if inDyn(&d.Where) {
			continue
		}
		wantItems = append(wantItems, item{fmt.Sprintf("%s/%s/%s", d.Sev, d.Rule, d.Item), d.Where})
	}
	var gotItems []item
	rules := map[string]bool{}
	unit := mustJSON(diffUnit{Recipe: rc, Path: st.Path, File: st.File, Mut: st.Mut, Kind: q.Kind.String()})
	for _, d := range diags {
		sev, rule, name := model.RuleOf(d)
		if d.Subject == nil {
			rep.Violation(&runner.Witness{Sig: "DIAG no-subject rule=" + rule, What: "diagnostic without a subject range: " + d.Summary, Unit: unit, Files: filesOf(ws)})
			continue
		}
		if rule == "unexpected-block" && name == "dynamic" {
			// whether a body knows dynamic blocks is decided by the propagation model
			// (DynamicBlocks of the static body, handed down to the nested blocks of
			// every merged body): a known dynamic block must not be reported
			// (the diagnostic's subject lies on the header of the block it is about)
			var inner *hcl.Range
			for dr := range dynKnown {
				dr := dr
				if within(*d.Subject, dr) {
					inner = &dr
				}
			}
			if inner != nil && dynKnown[*inner] {
				rep.Violation(&runner.Witness{Sig: "DIAG surplus error/unexpected-block dynamic-block-known-here", What: "validation reports a dynamic block as unexpected in a body whose schema has the DynamicBlocks extension (own or propagated)",
					Unit: unit, Files: filesOf(ws), Query: q.String(), Observed: fmtRange(*d.Subject)})
			}
			if inner != nil {
				rep.Distinct("dynamic_blocks_reported_unexpected", fmt.Sprintf("%s|%s|%d", rc, st.File, inner.Start.Byte))
			}
		}
		if inDyn(d.Subject) || (name == "dynamic" && (rule == "too-many-labels" || rule == "not-enough-labels")) {
			rep.Count("diags_in_dynamic_zone", 1)
			continue
		}
		if strings.HasPrefix(rule, "?") {
			rep.Violation(&runner.Witness{Sig: "DIAG unknown-kind", What: "diagnostic of an unknown kind from the stock validators: " + d.Summary, Unit: unit, Files: filesOf(ws)})
			continue
		}
		rules[rule] = true
		gotItems = append(gotItems, item{fmt.Sprintf("%s/%s/%s", sev, rule, name), *d.Subject})
	}
	// the converse: a dynamic block written in a body (of known schema) that does not
	// know dynamic blocks is an unexpected block
	if st.Mut.Kind == "none" || st.Mut.Kind == "" {
		for hdr, known := range dynKnown {
			if known || dynUnkZone[hdr] {
				continue
			}
			reported := false
			for _, d := range diags {
				_, rule, name := model.RuleOf(d)
				if rule == "unexpected-block" && name == "dynamic" && d.Subject != nil && within(*d.Subject, hdr) {
					reported = true
				}
			}
			if !reported {
				hdr := hdr
				rep.Violation(&runner.Witness{Sig: "DIAG missing error/unexpected-block dynamic-block-unknown-here", What: "a dynamic block written in a body whose schema does not have the DynamicBlocks extension is not reported as unexpected",
					Unit: unit, Files: filesOf(ws), Query: q.String(), Observed: fmtRange(hdr)})
			}
		}
	}
	// multiset comparison
	count := func(items []item) map[string]int {
		m := map[string]int{}
		for _, it := range items {
			m[it.key]++
		}
		return m
	}
	gm, wm := count(gotItems), count(wantItems)
	keys := map[string]bool{}
	for k := range gm {
		keys[k] = true
	}
	for k := range wm {
		keys[k] = true
	}
	var sk []string
	for k := range keys {
		sk = append(sk, k)
	}
	sort.Strings(sk)
	for _, k := range sk {
		if gm[k] == wm[k] {
			continue
		}
		parts := strings.SplitN(k, "/", 3)
		class := "missing"
		if gm[k] > wm[k] {
			class = "surplus"
		}
		rep.Violation(&runner.Witness{Sig: fmt.Sprintf("DIAG %s %s/%s", class, parts[0], parts[1]),
			What: fmt.Sprintf("validation reports %d x %q, the model expects %d", gm[k], k, wm[k]),
			Unit: unit, Files: filesOf(ws), Query: q.String(),
			Expected: fmtItems(wantItems), Observed: fmtItems(gotItems)})
	}
	// subject lies on the offending item (on files the parser accepts as
	// written: half-parsed blocks of broken files have no reliable extent)
	for _, g := range gotItems {
		if st.Mut.Kind != "none" && st.Mut.Kind != "" {
			break
		}
		ok := false
		for _, w := range wantItems {
			if w.key == g.key && within(g.where, w.where) {
				ok = true
				break
			}
		}
		if !ok && wm[g.key] > 0 {
			rule := strings.SplitN(g.key, "/", 3)[1]
			rep.Violation(&runner.Witness{Sig: "DIAG subject-not-on-item rule=" + rule, What: fmt.Sprintf("subject %s of %q does not lie on the offending item", fmtRange(g.where), g.key),
				Unit: unit, Files: filesOf(ws), Query: q.String(), Expected: fmtItems(wantItems)})
		}
	}
	rep.Count("diagnostics_compared", int64(len(gotItems)))
	for r := range rules {
		rep.Distinct("rules_seen", r)
	}
	if len(rules) >= 2 {
		rep.NonTrivial(fmt.Sprintf("%s|%s|%s", rc, st.File, st.Mut))
		if rep.NumSamples() < 5 {
			rep.Sample(map[string]interface{}{"source": rc.String(), "file": st.File, "state": st.Mut.String(), "diagnostics": fmtItems(gotItems)})
		}
	}
}

type diagItem struct {
	key   string
	where hcl.Range
}

func fmtItems(items []diagItem) string {
	var lines []string
	for _, it := range items {
		lines = append(lines, it.key+" @ "+fmtRange(it.where))
	}
	sort.Strings(lines)
	return trunc(strings.Join(lines, "\n"), 3000)
}

func init() { Register(c15{}) }
