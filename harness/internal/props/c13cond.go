package props

import (
	"encoding/json"
	"fmt"
	"sort"
	"strings"

	"github.com/hashicorp/hcl-lang/lang"
	"github.com/hashicorp/hcl-lang/schema"
	"github.com/hashicorp/hcl/v2"
	"github.com/hashicorp/hcl/v2/hclsyntax"

	"verifharness/internal/core"
	"verifharness/internal/model"
	"verifharness/internal/runner"
)

// c13cond is the "conditional branch transparency" part of C13: the tokens
// inside a branch of `cond ? A : B` that is the whole value of a known
// attribute must be the tokens A (resp. B) gets when it is written as that
// attribute's value directly - the branch is interpreted with the attribute's
// own constraint. Metamorphic: the file is rewritten with the branch in place
// of the conditional and both token streams come from the real library.
type c13cond struct{}

func (c13cond) ID() string { return "C13" }
func (c13cond) Meta() Meta { return Meta{} }

func c13condParams(tier string) (nGenQ, nGenT, perFile int) {
	if tier == "thorough" {
		return 60, 1200, 12
	}
	return 60, 1200, 5
}

func (p c13cond) NumUnits(tier string, seed int64) int {
	q, t, _ := c13condParams(tier)
	return len(diffSources(tier, seed, q, t))
}

type relTok struct {
	off, end int
	typ      string
	mods     string
}

func tokensWithin(toks []lang.SemanticToken, file string, lo, hi int) []relTok {
	var out []relTok
	for _, t := range toks {
		if t.Range.Filename == file && t.Range.Start.Byte >= lo && t.Range.End.Byte <= hi {
			out = append(out, relTok{t.Range.Start.Byte - lo, t.Range.End.Byte - lo, string(t.Type), modsString(t.Modifiers)})
		}
	}
	sort.Slice(out, func(i, j int) bool { return out[i].off < out[j].off })
	return out
}

func relTokString(ts []relTok) string {
	var sb strings.Builder
	for _, t := range ts {
		fmt.Fprintf(&sb, "%d-%d %s [%s]\n", t.off, t.end, t.typ, t.mods)
	}
	return sb.String()
}

func (p c13cond) RunUnit(idx int, tier string, seed int64, focus map[string]string, rep *runner.Reporter) {
	q, t, perFile := c13condParams(tier)
	srcs := diffSources(tier, seed, q, t)
	if idx >= len(srcs) {
		return
	}
	rc := srcs[idx].Recipe
	rnd := unitRand(seed, "C13c", idx)
	base, err := rc.Make()
	if err != nil {
		return
	}
	for _, st := range diffStates(base, rnd, 0) {
		if core.IsJSON(st.File) {
			continue
		}
		p.checkFile(rc, st, perFile, -1, rep)
	}
}

func (p c13cond) checkFile(rc Recipe, st State, perFile, only int, rep *runner.Reporter) {
	_, env0, _ := buildState(rc, st)
	if env0 == nil {
		return
	}
	pc := env0.PathCtx[st.Path]
	if pc == nil || pc.Schema == nil || pc.Files[st.File] == nil || env0.WS.FailPaths[st.Path] {
		return
	}
	body, ok := pc.Files[st.File].Body.(*hclsyntax.Body)
	if !ok {
		return
	}
	src := env0.WS.Paths[st.Path].Files[st.File]
	if _, diags := hclsyntax.ParseConfig([]byte(src), st.File, hcl.InitialPos); diags.HasErrors() {
		return
	}
	var sites []valueSite
	valueSites(body, model.EffRoot(pc.Schema), &sites)
	sort.Slice(sites, func(i, j int) bool { return sites[i].attr.SrcRange.Start.Byte < sites[j].attr.SrcRange.Start.Byte })
	var r0 *core.Result
	done := 0
	for _, vs := range sites {
		ce, ok := vs.attr.Expr.(*hclsyntax.ConditionalExpr)
		if !ok || vs.schema.IsDepKey {
			continue
		}
		// only any-expression constraints interpret a conditional (a literal type, keyword, ... does not)
		if _, isAny := vs.schema.Constraint.(schema.AnyExpression); !isAny {
			continue
		}
		if only >= 0 && vs.attr.SrcRange.Start.Byte != only {
			continue
		}
		if done >= perFile {
			break
		}
		done++
		if r0 == nil {
			r := env0.Run(core.Query{Kind: core.QSemTokens, Path: st.Path, File: st.File})
			rep.Eval(1)
			r0 = &r
		}
		toks0, ok := r0.Value.([]lang.SemanticToken)
		if !ok || r0.Panic != nil {
			return
		}
		whole := ce.Range()
		for bi, br := range []hclsyntax.Expression{ce.TrueResult, ce.FalseResult} {
			bRange := br.Range()
			if bRange.Start.Byte < whole.Start.Byte || bRange.End.Byte > whole.End.Byte || bRange.End.Byte > len(src) {
				continue
			}
			branchText := src[bRange.Start.Byte:bRange.End.Byte]
			text1 := src[:whole.Start.Byte] + branchText + src[whole.End.Byte:]
			if _, diags := hclsyntax.ParseConfig([]byte(text1), st.File, hcl.InitialPos); diags.HasErrors() {
				continue
			}
			ws1, _ := rc.Make()
			ws1.Paths[st.Path].Files[st.File] = text1
			env1 := ws1.Build(true)
			r1 := env1.Run(core.Query{Kind: core.QSemTokens, Path: st.Path, File: st.File})
			rep.Eval(1)
			toks1, ok := r1.Value.([]lang.SemanticToken)
			if !ok || r1.Panic != nil {
				continue
			}
			inBranch := tokensWithin(toks0, st.File, bRange.Start.Byte, bRange.End.Byte)
			direct := tokensWithin(toks1, st.File, whole.Start.Byte, whole.Start.Byte+len(branchText))
			kind := strings.TrimPrefix(fmt.Sprintf("%T", br), "*hclsyntax.")
			if len(direct) > 0 {
				rep.NonTrivial(fmt.Sprintf("cond|%s|%s|%d|%d", rc, st.File, whole.Start.Byte, bi))
			}
			// references resolve by position-independent addresses, but a branch that is
			// itself (or contains) a declaration could change what resolves: compare only
			// when the sets of collected targets agree in number
			if len(env0.PathCtx[st.Path].ReferenceTargets) != len(env1.PathCtx[st.Path].ReferenceTargets) {
				continue
			}
			if relTokString(inBranch) != relTokString(direct) {
				class := "differ"
				switch {
				case len(inBranch) < len(direct):
					class = "missing-in-branch"
				case len(inBranch) > len(direct):
					class = "extra-in-branch"
				}
				rep.Violation(&runner.Witness{Sig: fmt.Sprintf("TOKEN-COND-BRANCH %s branch=%s", class, kind),
					What:  fmt.Sprintf("the tokens inside the %s branch of the conditional value of %q differ from the tokens of the same expression written as the value directly", []string{"true", "false"}[bi], vs.attr.Name),
					Unit:  mustJSON(CaseSpec{Recipe: rc, Path: st.Path, File: st.File, Mut: Mutation{Kind: "none"}, Kind: "cond-branch", Byte: vs.attr.SrcRange.Start.Byte}),
					Files: filesOf(env0.WS), Expected: "written directly:\n" + relTokString(direct), Observed: "inside the branch:\n" + relTokString(inBranch)})
			}
			rep.Count("conditional_branches_compared", 1)
		}
	}
}

func (p c13cond) Replay(w *runner.Witness, rep *runner.Reporter) error {
	var spec CaseSpec
	if err := json.Unmarshal(w.Unit, &spec); err != nil {
		return err
	}
	p.checkFile(spec.Recipe, State{Path: spec.Path, File: spec.File, Mut: Mutation{Kind: "none"}}, 1, spec.Byte, rep)
	return nil
}
