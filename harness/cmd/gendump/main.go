// gendump prints a generated schema size / configuration (debugging aid).
package main

import (
	"fmt"
	"os"
	"strconv"

	"verifharness/internal/gen"
)

func main() {
	seed, _ := strconv.ParseInt(os.Args[1], 10, 64)
	opt := ""
	if len(os.Args) > 2 {
		opt = os.Args[2]
	}
	g := gen.Build(seed, opt)
	fmt.Fprintf(os.Stderr, "seed=%d opt=%q bytes=%d decls=%d rejected=%d\n", seed, opt, len(g.Src), len(g.G.Decls), g.G.Rejected)
	if len(os.Args) > 3 {
		fmt.Print(g.Src)
	}
}
