// vcheck is the single binary of the verification harness: driver, worker and
// replayer for every property.
package main

import (
	"encoding/json"
	"flag"
	"fmt"
	"os"
	"runtime"
	"runtime/pprof"
	"strconv"
	"strings"
	"time"

	"verifharness/internal/core"
	"verifharness/internal/dump"
	"verifharness/internal/props"
	"verifharness/internal/runner"
)

func usage() {
	fmt.Fprintf(os.Stderr, "usage: vcheck run <property> <quick|thorough>\n       vcheck replay <witness.json>\n       vcheck list\nproperties: %s\n", strings.Join(props.IDs(), " "))
	os.Exit(2)
}

func envSeed() int64 {
	if s := os.Getenv("VERIF_SEED"); s != "" {
		if n, err := strconv.ParseInt(s, 10, 64); err == nil {
			return n
		}
	}
	return 20261002
}

func verifDir() string {
	if d := os.Getenv("VERIF_DIR"); d != "" {
		return d
	}
	return "/verif"
}

func main() {
	if len(os.Args) < 2 {
		usage()
	}
	switch os.Args[1] {
	case "list":
		for _, id := range props.IDs() {
			fmt.Println(id)
		}
	case "run":
		if len(os.Args) < 4 {
			usage()
		}
		os.Exit(drive(os.Args[2], os.Args[3]))
	case "worker":
		os.Exit(worker(os.Args[2:]))
	case "unit":
		// debugging aid: run one unit in-process: vcheck unit <prop> <tier> <idx> [cpuprofile]
		p := props.Get(os.Args[2])
		idx, _ := strconv.Atoi(os.Args[4])
		rep := runner.NewReporter(os.Args[2], envSeed())
		if len(os.Args) > 5 {
			f, _ := os.Create(os.Args[5])
			pprof.StartCPUProfile(f)
			defer pprof.StopCPUProfile()
		}
		t0 := time.Now()
		p.RunUnit(idx, os.Args[3], envSeed(), nil, rep)
		rep.OpenOut("/dev/stdout")
		rep.FlushDelta()
		fmt.Fprintf(os.Stderr, "unit %d of %d took %v\n", idx, p.NumUnits(os.Args[3], envSeed()), time.Since(t0))
	case "probe":
		// helper process of C03: vcheck probe <recipe-json> <fwd|rev>
		if err := props.Probe(os.Args[2], os.Args[3], os.Stdout); err != nil {
			fmt.Fprintln(os.Stderr, err)
			os.Exit(2)
		}
	case "dbg":
		// debugging aid: vcheck dbg <witness.json> <query kind> [byte]  - run a query on the witness' recipe+files and dump the result
		os.Exit(dbg(os.Args[2:]))
	case "replay":
		if len(os.Args) < 3 {
			usage()
		}
		os.Exit(replay(os.Args[2]))
	default:
		usage()
	}
}

func drive(id, tier string) int {
	p := props.Get(id)
	if p == nil {
		fmt.Fprintf(os.Stderr, "unknown property %q\n", id)
		return 2
	}
	if t := os.Getenv("VERIF_TIER"); t != "" && tier == "" {
		tier = t
	}
	if tier != "quick" && tier != "thorough" {
		fmt.Fprintf(os.Stderr, "tier must be quick or thorough\n")
		return 2
	}
	if !core.HooksEnabled {
		fmt.Fprintln(os.Stderr, "vcheck must be built with -tags verif")
		return 2
	}
	seed := envSeed()
	m := p.Meta()
	workers := runtime.NumCPU()
	if w := os.Getenv("VERIF_WORKERS"); w != "" {
		if n, err := strconv.Atoi(w); err == nil && n > 0 {
			workers = n
		}
	}
	if m.MaxWorkers > 0 && workers > m.MaxWorkers {
		workers = m.MaxWorkers
	}
	nUnits := p.NumUnits(tier, seed)
	cfg := runner.Config{
		Property: id, Tier: tier, Seed: seed, Level: m.Level, Rule: m.Rule, Assumptions: m.Assumptions,
		VerifDir: verifDir(), Workers: workers, NumUnits: nUnits, CaseBudget: m.CaseBudget,
		Floor: m.Floor[tier], FatalIsViolation: m.FatalIsViolation,
		WorkerArgs: func(shard, of, from int) []string {
			return []string{"worker", "-prop", id, "-tier", tier, "-seed", strconv.FormatInt(seed, 10),
				"-shard", strconv.Itoa(shard), "-of", strconv.Itoa(of), "-from", strconv.Itoa(from)}
		},
	}
	if e, ok := p.(props.WithExtra); ok {
		cfg.Extra = e.Extra
	}
	cfg.Race = m.Race
	if m.Race && !core.RaceEnabled {
		fmt.Fprintln(os.Stderr, "property "+id+" needs the -race build of vcheck (./check builds it)")
		return 2
	}
	if m.Race {
		cfg.Env = append(cfg.Env, "GOMAXPROCS="+strconv.Itoa(runtime.NumCPU()))
	} else if m.MaxWorkers == 1 {
		cfg.Env = append(cfg.Env, "GOMAXPROCS="+strconv.Itoa(runtime.NumCPU()))
	} else {
		cfg.Env = append(cfg.Env, "GOMAXPROCS=2", "GOMEMLIMIT=3GiB", "GOGC=200")
	}
	return runner.Drive(cfg)
}

func worker(args []string) int {
	fs := flag.NewFlagSet("worker", flag.ExitOnError)
	id := fs.String("prop", "", "")
	tier := fs.String("tier", "quick", "")
	seed := fs.Int64("seed", 1, "")
	shard := fs.Int("shard", 0, "")
	of := fs.Int("of", 1, "")
	from := fs.Int("from", 0, "")
	out := fs.String("out", "", "")
	journal := fs.String("journal", "", "")
	counter := fs.String("counter", "", "")
	fs.Parse(args)
	// a worker does not outlive its driver (a killed driver must not leave 16 busy processes behind)
	go func(parent int) {
		for {
			time.Sleep(2 * time.Second)
			if os.Getppid() != parent {
				os.Exit(3)
			}
		}
	}(os.Getppid())
	p := props.Get(*id)
	if p == nil {
		return 2
	}
	rep := runner.NewReporter(*id, *seed)
	if err := rep.OpenOut(*out); err != nil {
		fmt.Fprintln(os.Stderr, err)
		return 2
	}
	if *journal != "" {
		j, err := runner.OpenJournal(*journal)
		if err != nil {
			fmt.Fprintln(os.Stderr, err)
			return 2
		}
		rep.SetJournal(j)
	}
	n := p.NumUnits(*tier, *seed)
	var ctr *runner.Counter
	if *counter != "" {
		c, err := runner.OpenCounter(*counter)
		if err != nil {
			fmt.Fprintln(os.Stderr, err)
			return 2
		}
		ctr = c
	}
	for idx := *from; idx < n; idx++ {
		if ctr != nil {
			// dynamic load balancing: claim the next unit nobody has taken yet
			idx = ctr.Next()
			if idx >= n {
				break
			}
		} else if idx%*of != *shard {
			continue
		}
		rep.Mark(idx, -1, -1, -1)
		p.RunUnit(idx, *tier, *seed, nil, rep)
		rep.Count("units_run", 1)
		if err := rep.FlushDelta(); err != nil {
			fmt.Fprintln(os.Stderr, err)
			return 2
		}
	}
	rep.FlushDelta()
	return 0
}

func replay(path string) int {
	b, err := os.ReadFile(path)
	if err != nil {
		fmt.Fprintln(os.Stderr, err)
		return 2
	}
	var w runner.Witness
	if err := json.Unmarshal(b, &w); err != nil {
		fmt.Fprintln(os.Stderr, err)
		return 2
	}
	p := props.Get(w.Property)
	if p == nil {
		fmt.Fprintf(os.Stderr, "unknown property %q\n", w.Property)
		return 2
	}
	rp, ok := p.(props.Replayer)
	if !ok {
		fmt.Fprintf(os.Stderr, "property %s has no single-case replay; re-run the check with VERIF_SEED=%d\n", w.Property, w.Seed)
		return 2
	}
	rep := runner.NewReporter(w.Property, w.Seed)
	if err := rp.Replay(&w, rep); err != nil {
		fmt.Fprintln(os.Stderr, err)
		return 2
	}
	sigs := rep.ViolationSigs()
	hit := false
	for _, s := range sigs {
		mark := " "
		if s == w.Sig {
			hit = true
			mark = "*"
		}
		fmt.Printf("%s observed: %s\n", mark, s)
	}
	if hit {
		fmt.Printf("VIOLATION property=%s replay=%s\n  reproduced: %s\n  %s\n", w.Property, path, w.Sig, w.What)
		return 1
	}
	fmt.Printf("NOT-REPRODUCED property=%s signature=%q (the recorded violation does not occur on the current tree)\n", w.Property, w.Sig)
	return 0
}

func dbg(args []string) int {
	b, err := os.ReadFile(args[0])
	if err != nil {
		fmt.Fprintln(os.Stderr, err)
		return 2
	}
	var w runner.Witness
	json.Unmarshal(b, &w)
	var u struct {
		Recipe props.Recipe `json:"recipe"`
		Path   string       `json:"path"`
		File   string       `json:"file"`
	}
	json.Unmarshal(w.Unit, &u)
	ws, err := u.Recipe.Make()
	if err != nil {
		fmt.Fprintln(os.Stderr, err)
		return 2
	}
	for k, src := range w.Files {
		for p, spec := range ws.Paths {
			if strings.HasPrefix(k, p+"/") {
				spec.Files[strings.TrimPrefix(k, p+"/")] = src
			}
		}
	}
	env := ws.Build(true)
	kind, ok := core.QKindByName(args[1])
	if !ok {
		fmt.Fprintln(os.Stderr, "unknown kind")
		return 2
	}
	q := core.Query{Kind: kind, Path: u.Path, File: u.File}
	if len(args) > 2 {
		off, _ := strconv.Atoi(args[2])
		q.Pos = env.Tables[u.Path][u.File].Near(off)
	}
	r := env.Run(q)
	fmt.Println(q.String())
	if r.Panic != nil {
		fmt.Println("PANIC", r.Panic.Value, r.Panic.Stack)
	}
	fmt.Println("err:", r.Err)
	fmt.Println(dump.String(r.Value, dump.Options{Indent: true}))
	return 0
}
